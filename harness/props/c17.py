"""C17 — configurations are memoised, comparable and validated the same way every time (DESIGN §4 C17).

Proof: `lean/BearVerif/Props/C17.lean` — for every well-formed option table, every history of
constructions and every keyword dictionary: same arguments (any keyword order) -> same object,
differing normalised arguments -> distinct unequal objects, `==` is identity, hash agrees, read-back
= passed modulo the three documented adjustments, `BeartypeConf(**c.kwargs) is c`, an invalid or
unhashable value -> BeartypeConfParamException from every memo-table state, never a raw exception.

Tie: (1) translator — the option table (names, order, validators, defaults, aliases, fallbacks) is
re-extracted from $VERIF_REPO on every run into `Extracted/Conf.lean`, the theorems are re-checked
against it; (2) lock-step differential — generated construction histories (valid / invalid /
look-alike / unhashable values, keyword permutations, `**kwargs` round trips, deprecated aliases,
${BEARTYPE_IS_COLOR}) run against real `BeartypeConf` in fresh subprocesses and against the Lean
model, comparing after EVERY step outcome class, identity class, table growth, `kwargs`, every
property, `repr`'s option list; (3) oracle — the clauses of the property evaluated on the real
outputs alone (raw exception, outcome differs from a fresh table's, same call -> other object,
permuted keywords -> other object, distinct objects comparing equal, unequal hashes of equal objects,
`BeartypeConf(**c.kwargs) is not c`, a plainly passed option reading back differently).
"""
from __future__ import annotations

import concurrent.futures as cf
import random
from decimal import Decimal
from fractions import Fraction

from ..common import (LEAN, Check, Explore, Failure, lean_driver, parse_sexp, sexp, subproc_json)
from ..extract import conf as xconf

MODULE = 'BearVerif.Props.C17'
PROP_FILE = LEAN / 'BearVerif/Props/C17.lean'
IMPL = 'harness.impl.c17conf'
ENVS = ['True', 'False', 'None']
ENVVAL = {'True': ['b', True], 'False': ['b', False], 'None': 'none'}
VS_SPEC = {'same-normalised-args-different-object', 'differing-args-same-object'}
SPECIAL = {'is_color', 'is_pep484_tower', 'hint_overrides', 'violation_type', 'violation_door_type',
           'violation_param_type', 'violation_return_type', 'warning_cls_on_decorator_exception'}


# ---------------------------------------------------------------------------
# the world: pool, per-option value classes
# ---------------------------------------------------------------------------
class World:
    def __init__(self, tb):
        from ..impl.c17conf import encode, world
        self.tb = tb
        self.w = world()
        self.pool = self.w.pool
        self.names = tb['order']
        self.kinds = {n: tb['kinds'][n] for n in self.names}
        self.aliases = dict(tb['aliases'])          # deprecated -> option
        self.enc = [encode(v) for v in self.pool]
        self.sx = [sexp(e) for e in self.enc]
        import enum
        P = self.pool
        num = lambda x: type(x) in (int, float, complex, Decimal, Fraction)   # noqa: E731
        self.i_bool = [i for i, x in enumerate(P) if type(x) is bool]
        self.i_none = [i for i, x in enumerate(P) if x is None]
        self.i_like01 = [i for i, x in enumerate(P) if (num(x) or isinstance(x, enum.IntEnum)) and x in (0, 1)]
        self.i_num = [i for i, x in enumerate(P) if num(x)]
        self.i_enum = [i for i, x in enumerate(P) if isinstance(x, enum.Enum)]
        self.i_cls = [i for i, x in enumerate(P) if isinstance(x, type)]
        self.i_coll = [i for i, x in enumerate(P) if isinstance(x, (tuple, list, set, frozenset, str))]
        self.i_fd = [i for i, x in enumerate(P) if isinstance(x, dict)]
        self.i_all = list(range(len(P)))
        self.valid: dict = {}
        self.like: dict = {}
        for n in self.names:
            k = self.kinds[n][0]
            if k == 'bool':
                v, l = self.i_bool, self.i_like01
            elif k == 'tristate':
                v, l = self.i_bool + self.i_none, self.i_like01 + [i for i, x in enumerate(P) if num(x) and x == self.w.unpassed]
            elif k == 'enum':
                cls = self.kinds[n][1]
                v = [i for i in self.i_enum if type(P[i]) is cls]
                l = [i for i in self.i_enum if type(P[i]) is not cls] + [i for i in self.i_num if P[i] in (1, 2, 3)]
            elif k == 'identColl':
                v = [i for i in self.i_coll if isinstance(P[i], (tuple, frozenset, str)) and all(
                    isinstance(s, str) and s and all(p.isidentifier() for p in s.split('.')) for s in P[i])]
                l = [i for i in self.i_coll if i not in v]
            elif k == 'frozenDict':
                v = [i for i in self.i_fd if isinstance(P[i], self.w.FrozenDict)]
                l = [i for i in self.i_fd if i not in v]
            else:   # class-valued
                v = [i for i in self.i_cls if isinstance(P[i], type) and issubclass(P[i], Exception)] + \
                    ([] if k == 'excType' else self.i_none) + (self.i_none if k == 'excType' else [])
                l = self.i_cls
            self.valid[n], self.like[n] = v, l

    def vcat(self, i) -> str:
        """category of a pool value (part of the canonical key of a failing input)"""
        import enum
        x = self.pool[i]
        if x is None or type(x) is bool:
            return repr(x)
        if isinstance(x, enum.Enum):
            return ('beartype-' if type(x) in self.w.enums[:3] else 'foreign-') + type(x).__mro__[1].__name__ + f':{x.value}'
        if type(x) in (int, float, complex, Decimal, Fraction):
            return f'{type(x).__name__}:{"unpassed" if x == self.w.unpassed else x}'
        if isinstance(x, type):
            return 'warning-class' if issubclass(x, Warning) else 'exception-class' if issubclass(x, Exception) else 'class'
        if isinstance(x, self.w.FrozenDict):
            e = self.enc[i]
            return 'FrozenDict' + ('' if e[4] else '-unhashable') + (f'[float:{e[1] if isinstance(e[1], str) else "other"},'
                                                                     f'complex:{e[2] if isinstance(e[2], str) else "other"}]'
                                                                     if (e[1], e[2]) != ('absent', 'absent') else '')
        if isinstance(x, (tuple, list, set, frozenset, str, dict)):
            return type(x).__name__ + (f'[{len(x)}]' if not isinstance(x, dict) else '')
        return 'object'

    def oname(self, n) -> str:
        if n in self.aliases:
            return 'deprecated:' + self.oname(self.aliases[n])
        return n if n in SPECIAL else self.kinds[n][0] + (':' + self.kinds[n][1].__name__ if self.kinds[n][0] == 'enum' else '')

    def shape(self, h) -> str:
        out = []
        for op in h:
            env = '' if op[1] is None else f'@env={op[1] if op[1] in ENVS else "garbage"}'
            if op[0] == 'new':
                out.append('new(' + ','.join(sorted(f'{self.oname(n)}={self.vcat(i)}' for n, i in op[2])) + ')' + env)
            else:
                out.append(f'again#{op[2]}' + env)
        return ';'.join(out)

    def describe(self, h) -> list[str]:
        out = []
        for k, op in enumerate(h):
            env = '' if op[1] is None else f'[BEARTYPE_IS_COLOR={op[1]!r}] '
            if op[0] == 'new':
                out.append(f'#{k} {env}BeartypeConf(' + ', '.join(f'{n}={self.pool[i]!r}'[:90] for n, i in op[2]) + ')')
            else:
                out.append(f'#{k} {env}BeartypeConf(**<result of #{op[2]}>.kwargs)')
        return out


# ---------------------------------------------------------------------------
# generation
# ---------------------------------------------------------------------------
CORPUS = None


def corpus(W: World) -> list:
    """directed histories, run first in every exploration (the shapes of past findings and of the
    examples in Props/C17.lean)"""
    P = W.pool

    def ix(x):
        return next(i for i, y in enumerate(P) if y is x or (type(y) is type(x) and type(x) in (int, float, tuple, list) and y == x))
    T, F, N = ix(True), ix(False), ix(None)
    one, onef = ix(1), ix(1.0)
    fdmap = {W.sx[i]: i for i in W.i_fd}
    some_fd = lambda e: fdmap[sexp(e)]   # noqa: E731
    hs = [
        [['new', None, [['is_debug', T]]], ['new', None, [['is_debug', one]]], ['new', None, [['is_debug', T]]]],
        [['new', None, [['is_random', F]]], ['new', None, [['is_random', ix(0)]]]],
        [['new', None, [['claw_is_pep526', T]]], ['new', None, [['claw_is_pep526', onef]]]],
        [['new', None, []], ['new', None, [['violation_verbosity', ix(2)]]]],
        [['new', None, [['hint_overrides', some_fd(['d', 1, False])]]]],
        [['new', None, [['claw_skip_package_names', ix(['a'])]]]],
        [['new', None, [['claw_skip_package_names', ix(('a',))]]], ['new', None, [['claw_skip_package_names', ix(['a'])]]]],
        [['new', None, [['hint_overrides', some_fd(['fd', 'absent', 'absent', 3, False, False])]]]],
        [['new', None, []], ['again', None, 0]],
        [['new', None, [['is_pep484_tower', T]]], ['again', None, 0], ['again', None, 1]],
        [['new', None, [['violation_type', ix(ValueError)]]], ['again', None, 0]],
        [['new', None, [['is_color', T]]], ['again', None, 0], ['again', 'True', 0], ['again', 'False', 0]],
        [['new', None, [['is_debug', T], ['strategy', W.valid['strategy'][3]]]],
         ['new', None, [['strategy', W.valid['strategy'][3]], ['is_debug', T]]]],
        [['new', 'True', [['is_color', one]]], ['new', None, [['is_color', T]]], ['new', None, [['is_color', one]]]],
        [['new', 'rubbish', []], ['new', None, []]],
        [['new', None, [['is_check_pep557', T]]], ['new', None, [['is_pep557_fields', T]]], ['new', None, [['is_check_pep557', one]]]],
        [['new', None, [['warning_cls_on_decorator_exception', N]]], ['new', None, []], ['again', None, 0], ['again', None, 1]],
        [['new', None, [['is_pep484_tower', T], ['hint_overrides', some_fd(['fd', ['other', 0], 'absent', 0, True, False])]]]],
        [['new', None, [['is_pep484_tower', T], ['hint_overrides', some_fd(['fd', 'absent', ['other', 1], 0, True, False])]]],
         ['new', None, [['hint_overrides', some_fd(['fd', 'absent', ['other', 1], 0, True, False])]]]],
        [['new', None, [['is_pep484_tower', T], ['hint_overrides', some_fd(['fd', 'tower', 'absent', 0, True, False])]]],
         ['new', None, [['is_pep484_tower', T]]], ['again', None, 0]],
        [['new', None, [['hint_overrides', some_fd(['fd', 'absent', 'absent', 2, True, False])]]],
         ['new', None, [['hint_overrides', [i for i in W.i_fd if W.sx[i] == sexp(['fd', 'absent', 'absent', 2, True, False])][1]]]]],
        [['new', None, [['violation_door_type', N]]], ['new', None, []]],
        [['new', None, [['is_color', ix(int(W.w.unpassed))]]], ['new', None, [['is_color', N]]], ['new', None, []]],
    ]
    # unequal values with EQUAL hashes (the memo is keyed by the parameters, never by their hash): both orders
    from ..impl.c17conf import CollideA, CollideB
    ca, cb = ix(CollideA), ix(CollideB)
    fa, fb = (some_fd(['fd', 'absent', 'absent', W.w.rests.index({int: c}), True, False]) for c in (CollideA, CollideB))
    for n in ('violation_type', 'violation_door_type', 'violation_param_type', 'violation_return_type'):
        hs.append([['new', None, [[n, ca]]], ['new', None, [[n, cb]]], ['new', None, [[n, ca]]]])
        hs.append([['new', None, [[n, cb]]], ['new', None, [[n, ca]]]])
    hs.append([['new', None, [['hint_overrides', fa]]], ['new', None, [['hint_overrides', fb]]], ['again', None, 0]])
    hs.append([['new', None, [['hint_overrides', fb]]], ['new', None, [['hint_overrides', fa]]]])
    # the tower with overrides that spell ONE of its entries as the tower does and conflict on the OTHER
    for i in W.i_fd:
        e = W.enc[i]
        if e[0] == 'fd' and e[4] and {'tower'} < {e[1] if isinstance(e[1], str) else 'other', e[2] if isinstance(e[2], str) else 'other'} \
                and 'other' in (e[1] if isinstance(e[1], str) else 'other', e[2] if isinstance(e[2], str) else 'other'):
            hs.append([['new', None, [['is_pep484_tower', T], ['hint_overrides', i]]], ['new', None, [['is_pep484_tower', T]]]])
            hs.append([['new', None, [['hint_overrides', i]]], ['new', None, [['hint_overrides', i], ['is_pep484_tower', T]]]])
    return hs


def pick_value(rng, W: World, n: str):
    r = rng.random()
    if r < 0.62 and W.valid[n]:
        return rng.choice(W.valid[n])
    if r < 0.90 and W.like[n]:
        return rng.choice(W.like[n])
    return rng.choice(W.i_all)


def gen_history(rng: random.Random, W: World, maxlen: int) -> list:
    n_ops = rng.randint(2, maxlen)
    focus = rng.sample(W.names, k=rng.randint(1, 3))
    alias_of = {v: k for k, v in W.aliases.items()}
    ops: list = []
    for _ in range(n_ops):
        env = None
        re_ = rng.random()
        if re_ < 0.10:
            env = rng.choice(ENVS)
        elif re_ < 0.115:
            env = 'rubbish'
        r = rng.random()
        news = [k for k, o in enumerate(ops) if o[0] == 'new']
        if r < 0.14 and ops:
            ops.append(['again', env, rng.randrange(len(ops))])
        elif r < 0.28 and news:                      # the same call again, keywords permuted
            src = ops[rng.choice(news)]
            kw = [list(p) for p in src[2]]
            rng.shuffle(kw)
            ops.append(['new', src[1] if rng.random() < 0.8 else env, kw])
        elif r < 0.40 and news:                      # an earlier call with ONE value swapped for a look-alike / other value
            src = ops[rng.choice(news)]
            kw = [list(p) for p in src[2]]
            if kw:
                j = rng.randrange(len(kw))
                opt = W.aliases.get(kw[j][0], kw[j][0])
                kw[j][1] = rng.choice(W.like[opt]) if (W.like[opt] and rng.random() < 0.7) else pick_value(rng, W, opt)
            ops.append(['new', env, kw])
        else:
            k = rng.choice([0, 1, 1, 1, 2, 2, 3, 4])
            opts = []
            for _ in range(k):
                n = rng.choice(focus) if rng.random() < 0.7 else rng.choice(W.names)
                if n not in opts:
                    opts.append(n)
            kw = []
            for n in opts:
                v = pick_value(rng, W, n)
                if n in alias_of and rng.random() < 0.15:     # through the deprecated spelling
                    kw.append([alias_of[n], v if rng.random() < 0.8 else rng.choice(W.i_none)])
                    if rng.random() < 0.3:
                        kw.append([n, pick_value(rng, W, n)])
                else:
                    kw.append([n, v])
            ops.append(['new', env, kw])
    return ops


# ---------------------------------------------------------------------------
# running both sides
# ---------------------------------------------------------------------------
def run_real_batches(batches: list, names, uncleared_first: bool, threads: bool = False, coverage: bool = False) -> list:
    """one fresh subprocess per batch (16 at a time); returns per batch the subprocess answer"""
    def one(b):
        return subproc_json(IMPL, {'histories': b, 'names': names, 'uncleared_first': uncleared_first, 'threads': threads,
                                   'coverage': coverage}, timeout=1200)
    with cf.ThreadPoolExecutor(max_workers=16) as ex:
        return list(ex.map(one, batches))


def model_line(W: World, h, prefix=None) -> str:
    ops = []
    for kwenc in (prefix or []):
        ops.append(['new', ['unset'], [[n, v] for n, v in kwenc]])
    off = len(ops)
    for op in h:
        env = ['unset'] if op[1] is None else ['set', op[1]]
        if op[0] == 'new':
            ops.append('(new ' + sexp(env) + ' (' + ' '.join(f'({n} {W.sx[i]})' for n, i in op[2]) + '))')
        else:
            ops.append(['again', env, op[2] + off])
    return '(c17 (' + ' '.join(o if isinstance(o, str) else sexp(o) for o in ops) + '))'


def run_model(W: World, hists: list, prefixes=None) -> list:
    lines = [model_line(W, h, prefixes[k] if prefixes else None) for k, h in enumerate(hists)]
    if not lines:
        return []
    from .. import common
    if 'C17' not in common._DRIVER_BUILT:     # build the driver once, before the threads (what lean_driver would do)
        common._DRIVER_BUILT['C17'] = common.lean_build(['BearVerif.Driver.C17', 'BearVerif.Core.Loop'])
    nchunk = max(1, min(12, len(lines) // 40))
    chunks = [lines[i::nchunk] for i in range(nchunk)]
    with cf.ThreadPoolExecutor(max_workers=nchunk) as ex:
        outs = list(ex.map(lambda c: lean_driver(c, 'C17'), chunks))
    res = [None] * len(lines)
    for ci, out in enumerate(outs):
        for k, line in enumerate(out):
            v = parse_sexp(line)
            assert v[0] == 'ok', (line, lines[ci + k * nchunk])
            off = len(prefixes[ci + k * nchunk]) if prefixes and prefixes[ci + k * nchunk] else 0
            ans = v[1][off:]
            for m in ans:
                if m[0] == 'conf':
                    m[2] = str(int(m[2]) - off)     # table growth since the history began
            res[ci + k * nchunk] = ans
    return res


_NORM: dict = {}


def norm(e):
    """encoded value -> the shape `parse_sexp` gives the model's answer"""
    k = repr(e)
    if k not in _NORM:
        _NORM[k] = parse_sexp(sexp(e))
    return _NORM[k]


# ---------------------------------------------------------------------------
# judging one history
# ---------------------------------------------------------------------------
def judge(W: World, h, real, model):
    """-> (findings, diffs). finding = (clause, op index, text): the property fails on the REAL outputs
    (the model supplies the expected side only for the *-vs-spec clauses). diff = model/real
    difference on an observable outside the property statement."""
    findings, diffs = [], []
    res = real['results']
    names = W.names
    # canonical numbering of the model's objects by first occurrence
    mnum: dict = {}
    mobj = []
    for m in model:
        if m[0] == 'conf':
            mobj.append(mnum.setdefault(m[1], len(mnum)))
        else:
            mobj.append(None)
    sig = lambda op: (op[1], frozenset((n, i) for n, i in op[2])) if op[0] == 'new' else None   # noqa: E731
    seen_sig: dict = {}
    robj_key: dict = {}      # real object -> model object it was first returned for
    res_objs = None
    for k, (op, r, m) in enumerate(zip(h, res, model)):
        out = r['out']
        # ---- oracle clauses on the real outputs alone
        if out.startswith('raw:'):
            findings.append(('raw-exception', k, f'{W.describe(h)[k]} raised {out[4:]}: {r.get("msg", "")[:100]}'))
        if op[0] == 'new':
            iso = real['isolated'][k]
            cls = lambda o: 'conf' if o == 'conf' else o   # noqa: E731
            if iso is not None and cls(iso) != cls(out) and not out.startswith('raw:') and not iso.startswith('raw:'):
                findings.append(('history-dependent-outcome', k,
                                 f'{W.describe(h)[k]} gives {out} after this history but {iso} on a fresh memo table'))
            s = sig(op)
            if s in seen_sig:
                k0 = seen_sig[s]
                r0 = res[k0]
                if (r0['out'], r0.get('obj')) != (out, r.get('obj')):
                    clause = 'kw-order' if [p[0] for p in h[k0][2]] != [p[0] for p in op[2]] else 'same-args-different-object'
                    findings.append((clause, k, f'{W.describe(h)[k]} -> {out}/{r.get("obj")} but the same call #{k0} -> '
                                                f'{r0["out"]}/{r0.get("obj")}'))
            else:
                seen_sig[s] = k
        if op[0] == 'again' and out != 'skip':
            src = res[op[2]]
            sprops = {a_: b_ for a_, b_ in src.get('props', [])}
            env_ok = op[1] is None or (op[1] in ENVVAL and 'is_color' in sprops and norm(sprops['is_color']) == norm(ENVVAL[op[1]]))
            if env_ok and (out != 'conf' or r.get('obj') != src.get('obj')):
                findings.append(('roundtrip', k, f'{W.describe(h)[k]} is {out}/{r.get("obj")}, not the object {src.get("obj")} '
                                                 f'whose kwargs were passed'))
        if out == 'conf' and op[0] == 'new' and 'props' in r:
            props = {a: b for a, b in r['props']}
            passed = dict((n, i) for n, i in op[2])
            tower = props.get('is_pep484_tower') == ['b', True]
            for n, i in op[2]:
                if n in W.aliases or any(a in passed for a, t in W.aliases.items() if t == n):
                    continue
                if n == 'is_color' or (n == 'hint_overrides' and tower) or \
                        (n in dict(W.tb['fallbacks']) and W.pool[i] is None) or \
                        (n == 'warning_cls_on_decorator_exception' and W.pool[i] is W.w.classes[0]):
                    continue
                if norm(props[n]) != norm(W.enc[i]):
                    findings.append(('readback', k, f'{W.describe(h)[k]}: {n} reads back as {props[n]}, passed {W.enc[i]}'))
        # ---- the model as the expected side
        mout = {'conf': 'conf', 'skip': 'skip'}.get(m[0]) or {'ParamException': 'ParamException',
                                                              'ShellVarException': 'ShellVarException'}.get(m[1], 'raw')
        if out != mout:
            if not out.startswith('raw:'):
                findings.append(('outcome-vs-spec', k, f'{W.describe(h)[k]} -> {out}; the specification says {mout}'))
            continue
        if out != 'conf':
            continue
        # identity, relationally: which EARLIER calls returned this very object?
        both = [j for j in range(k) if res[j]['out'] == 'conf' and mobj[j] is not None]
        same_r = [j for j in both if res[j]['obj'] == r['obj']]
        same_m = [j for j in both if mobj[j] == mobj[k]]
        if same_r != same_m:
            miss = [j for j in same_m if j not in same_r]
            extra = [j for j in same_r if j not in same_m]
            if miss:
                findings.append(('same-normalised-args-different-object', k,
                                 f'{W.describe(h)[k]} is not the object returned by call #{miss[0]}, although both calls have the '
                                 f'same arguments after the documented adjustments'))
            else:
                findings.append(('differing-args-same-object', k,
                                 f'{W.describe(h)[k]} is the object returned by call #{extra[0]}, although their arguments differ'))
        robj_key.setdefault(r['obj'], mobj[k])
        if 'encode_error' in r:
            diffs.append({'op': k, 'field': 'encode', 'real': r['encode_error']})
            continue
        mk, mp = m[4], m[5]
        rk = [norm(v) for _, v in r['kwargs']]
        rp = [norm(v) for _, v in r['props']]
        if [a for a, _ in r['kwargs']] != names:
            diffs.append({'op': k, 'field': 'kwargs-names', 'real': [a for a, _ in r['kwargs']], 'model': names})
        for n, a, b in zip(names, rk, mk):
            if a != b:
                findings.append(('readback-vs-spec', k, f'{W.describe(h)[k]}: kwargs[{n!r}] is {a}; the specification says {b}'))
                break
        for n, a, b in zip(names, rp, mp):
            if a != b:
                findings.append(('readback-vs-spec', k, f'{W.describe(h)[k]}: property {n} is {a}; the specification says {b}'))
                break
        if r.get('table_size') != int(m[2]):
            diffs.append({'op': k, 'field': 'table_size', 'real': r.get('table_size'), 'model': int(m[2]), 'call': W.describe(h)[k]})
        if str(r['warn_set']).lower() != m[3]:
            diffs.append({'op': k, 'field': 'warn_set', 'real': r['warn_set'], 'model': m[3], 'call': W.describe(h)[k]})
        if sorted(r['repr_names']) != sorted(m[6]):
            diffs.append({'op': k, 'field': 'repr', 'real': r['repr'], 'model_names': m[6], 'call': W.describe(h)[k]})
    for i, j, eq, eq2, ne, heq in real['pairs']:
        if eq or eq2 or not ne:
            findings.append(('equal-but-distinct', None, f'objects {i} and {j} of {W.describe(h)} are distinct yet ==:{eq}/{eq2} !=:{ne}'))
        if (eq or eq2) and not heq:
            findings.append(('hash-disagrees', None, f'objects {i} and {j} compare equal with different hashes'))
    if not real['self_ok']:
        findings.append(('hash-disagrees', None, 'an object is unequal to itself or its hash is unstable'))
    # a call already convicted on the real outputs alone is not reported a second time against the specification
    direct = {f[1] for f in findings if not f[0].endswith('-vs-spec') and f[0] not in VS_SPEC}
    findings = [f for f in findings if not ((f[0].endswith('-vs-spec') or f[0] in VS_SPEC) and f[1] in direct)]
    return findings, diffs


THREAD_STATS = {'rounds': 0, 'bad': []}


def evaluate(W: World, hists: list, uncleared_first=False, batch=40, threads=False):
    """run histories on both sides -> list of (history, real, model, findings, diffs)"""
    batches = [hists[i:i + batch] for i in range(0, len(hists), batch)]
    reals = run_real_batches(batches, W.names, uncleared_first, threads)
    for ans in reals:
        if 'threads' in ans:
            THREAD_STATS['rounds'] += ans['threads']['rounds']
            THREAD_STATS['bad'] += ans['threads']['bad']
    flat_real, prefixes = [], []
    for b, ans in zip(batches, reals):
        for k, run in enumerate(ans['runs']):
            flat_real.append(run)
            prefixes.append([kw['kwargs'] for kw in ans['initial']] if (uncleared_first and k == 0) else None)
    models = run_model(W, hists, prefixes)
    out = []
    for h, r, m in zip(hists, flat_real, models):
        f, d = judge(W, h, r, m)
        out.append((h, r, m, f, d))
    return out


# ---------------------------------------------------------------------------
# shrinking
# ---------------------------------------------------------------------------
def drop_op(h, k):
    out = []
    for j, op in enumerate(h):
        if j == k:
            continue
        if op[0] == 'again':
            if op[2] == k:
                continue
            op = ['again', op[1], op[2] - (1 if op[2] > k else 0)]
            if op[2] >= len(out):
                continue
        out.append(op)
    return out


def canonical_swaps(W: World, h):
    """same history with one (option, value) replaced by the representative of its kind / category"""
    rep_opt = {}
    for n in W.names:
        if n not in SPECIAL:
            rep_opt.setdefault(W.kinds[n][0] + (W.kinds[n][1].__name__ if W.kinds[n][0] == 'enum' else ''), n)
    out = []
    for k, op in enumerate(h):
        if op[0] != 'new':
            continue
        for j, (n, i) in enumerate(op[2]):
            tgt = W.aliases.get(n, n)
            if tgt in SPECIAL:
                continue
            rep = rep_opt[W.kinds[tgt][0] + (W.kinds[tgt][1].__name__ if W.kinds[tgt][0] == 'enum' else '')]
            if rep != n and rep not in [p[0] for p in op[2]]:
                # rename this option everywhere in the history
                h2 = [[o[0], o[1], [[rep if p[0] == n else p[0], p[1]] for p in o[2]]] if o[0] == 'new' else o for o in h]
                if all(len({p[0] for p in o[2]}) == len(o[2]) for o in h2 if o[0] == 'new'):
                    out.append(h2)
            # smaller pool index of the same category
            cat = W.vcat(i)
            for i2 in range(i):
                if W.vcat(i2) == cat:
                    out.append([o if kk != k else ['new', o[1], [[p[0], i2] if jj == j else p for jj, p in enumerate(o[2])]]
                                for kk, o in enumerate(h)])
                    break
    return out


def value_transforms(W: World, h):
    """whole-history value canonicalisation: 0-like -> 1-like of the same type; numeric look-alikes -> int"""
    P = W.pool

    def find(x):
        return next((i for i, y in enumerate(P) if type(y) is type(x) and y == x), None)
    num = (int, float, complex, Decimal, Fraction)
    t1, t2 = {}, {}
    for i, x in enumerate(P):
        if type(x) in num + (bool,) and x == 0:
            j = find(type(x)(1))
            if j is not None:
                t1[i] = j
        if type(x) in num and type(x) is not int and W.enc[i][0] == 'n':      # an integral look-alike
            j = find(W.enc[i][2])
            if j is not None:
                t2[i] = j
    out = []
    for t in (t1, t2):
        h2 = [[o[0], o[1], [[p[0], t.get(p[1], p[1])] for p in o[2]]] if o[0] == 'new' else o for o in h]
        if h2 != h:
            out.append(h2)
    return out


def hsize(h):
    return (len(h), sum(len(o[2]) for o in h if o[0] == 'new'), sum(1 for o in h if o[1] is not None),
            sum(p[1] for o in h if o[0] == 'new' for p in o[2]))


def candidates(W: World, cur, at):
    cands = [drop_op(cur, k) for k in range(len(cur))]
    if at is not None and at < len(cur):
        # the offending call alone / after one earlier call / the prefix up to it
        cands += [cur[:at + 1], [cur[at]]] if cur[at][0] == 'new' else [cur[:at + 1]]
        for j in range(at):
            if cur[j][0] == 'new':
                cands.append([cur[j], cur[at]] if cur[at][0] == 'new' else [cur[j], ['again', cur[at][1], 0]])
    for k, op in enumerate(cur):
        if op[0] == 'new':
            for j in range(len(op[2])):
                cands.append([o if kk != k else ['new', o[1], o[2][:j] + o[2][j + 1:]] for kk, o in enumerate(cur)])
        if op[1] is not None:
            cands.append([o if kk != k else [o[0], None, o[2]] for kk, o in enumerate(cur)])
    cands += canonical_swaps(W, cur) + value_transforms(W, cur)
    uniq = []
    for c in sorted((c for c in cands if c), key=hsize):
        if c not in uniq and hsize(c) < hsize(cur):
            uniq.append(c)
    return uniq


def shrink_many(W: World, items):
    """items = [(history, clause, index of the offending call)]; greedy minimisation of all of them in
    lock-step (one batch of subprocesses + one model run per round); a candidate is kept only if the SAME
    clause still fails on the real code"""
    cur = [it[0] for it in items]
    active = set(range(len(items)))
    for rnd in range(25):
        allc, owner = [], []
        for idx in sorted(active):
            for c in candidates(W, cur[idx], items[idx][2] if rnd == 0 else None):
                allc.append(c)
                owner.append(idx)
        if not allc:
            break
        ev = evaluate(W, allc, batch=max(10, -(-len(allc) // 16)))
        progressed = set()
        for c, idx, e in zip(allc, owner, ev):
            if idx not in progressed and any(f[0] == items[idx][1] for f in e[3]):
                cur[idx] = c          # candidates are sorted by size: the first that fires is the smallest
                progressed.add(idx)
        active = progressed
        if not active:
            break
    return cur


# ---------------------------------------------------------------------------
# exploration
# ---------------------------------------------------------------------------
def load_world(ex: Explore | None = None) -> World:
    try:
        tb = xconf.extract()
    except xconf.ExtractError as e:
        # keep the last extracted table (Extracted/Conf.lean is left as it was): the differential and the
        # oracles then look for a failing input of the changed code
        if ex is not None:
            ex.corr_diffs.append({'translator': f'option table of $VERIF_REPO no longer has the recognised shape: {e}'})
        tb = xconf.read_last()
    return World(tb)


def explore(ck: Check, n: int, maxlen: int, seed: int, batch: int = 40) -> Explore:
    ex = Explore(rule='construction histories of 2..%d ops over the %s (17 options + 3 deprecated aliases x %d pool values: valid, '
                      'invalid, ==-look-alikes of valid ones, unhashable; keyword permutations; **kwargs round trips; '
                      '${BEARTYPE_IS_COLOR}); non-trivial = history with >=1 object created AND >=1 memo hit or rejection AND >=1 of '
                      '(look-alike value, unhashable value, permuted repeat, round trip, environment set, deprecated alias); '
                      'distinct = distinct op sequences' % (maxlen, 'extracted option table', 0))
    W = load_world(ex)
    ex.rule = ex.rule.replace('x 0 pool', f'x {len(W.pool)} pool')
    rng = random.Random(seed)
    hists = corpus(W) + [gen_history(rng, W, maxlen) for _ in range(n)]
    # the first history of every subprocess runs on the table as `import beartype` left it
    THREAD_STATS.update(rounds=0, bad=[])
    evs = evaluate(W, hists[:len(hists) // 2], uncleared_first=True, batch=batch) + \
        evaluate(W, hists[len(hists) // 2:], uncleared_first=False, batch=batch, threads=True)
    for kwi in THREAD_STATS['bad'][:1]:
        hb = [['new', None, kwi]]
        ex.failures.append(Failure(key=f'C17:threads-different-object:{W.shape(hb)}',
                                   what=f'8 threads released together calling {W.describe(hb)[0]} did not all get one object',
                                   replay={'clause': 'threads', 'history': hb, 'history_readable': W.describe(hb)}))
    seen, nontrivial = set(), set()
    outcomes: dict = {}
    clause_hits: dict = {}
    optuse: dict = {}
    catuse: dict = {}
    reported: dict = {}
    groups: dict = {}
    for h, real, model, findings, diffs in evs:
        ex.evaluations += len(h)
        ex.traces_validated += 1
        key = repr(h)
        outs = [r['out'] for r in real['results']]
        for o in outs:
            outcomes[o] = outcomes.get(o, 0) + 1
        for op in h:
            if op[0] == 'new':
                for nme, i in op[2]:
                    optuse[nme] = optuse.get(nme, 0) + 1
                    c = W.vcat(i).split('[')[0].split(':')[0]
                    catuse[c] = catuse.get(c, 0) + 1
        if key not in seen:
            seen.add(key)
            objs = [r.get('obj') for r in real['results'] if r['out'] == 'conf']
            hit = len(objs) != len(set(objs))
            rej = any(o not in ('conf', 'skip') for o in outs)
            special = any(op[0] == 'again' or op[1] is not None for op in h) or any(
                (nme in W.aliases) or (i in W.like.get(W.aliases.get(nme, nme), ())) or not _hashable(W.pool[i])
                for op in h if op[0] == 'new' for nme, i in op[2]) or len({(op[1], frozenset(map(tuple, op[2]))) for op in h if op[0] == 'new'}) < \
                sum(1 for op in h if op[0] == 'new')
            if objs and (hit or rej) and special:
                nontrivial.add(key)
        for d in diffs:
            ex.corr_diffs.append({'history': W.describe(h), **d})
        for f in findings:
            clause_hits[f[0]] = clause_hits.get(f[0], 0) + 1
            # group by clause + shape of the offending call; the shortest history of each group is shrunk
            g = (f[0], W.shape([h[f[1]]]) if f[1] is not None else '')
            if g not in groups or len(h) < len(groups[g][0]):
                groups[g] = (h, real, model, findings, diffs)
    order = sorted(groups.items(), key=lambda kv: (len(kv[1][0]), kv[0]))
    rank: dict = {}
    ranked = []
    for kv in order:
        rank[kv[0][0]] = rank.get(kv[0][0], 0) + 1
        ranked.append((rank[kv[0][0]], kv))
    chosen = []
    for rk, ((clause, _), (h, real, model, findings, diffs)) in sorted(ranked, key=lambda x: (x[0], x[1][0])):
        if len(chosen) >= 12 or rk > 4:
            continue
        at = next((f[1] for f in findings if f[0] == clause), None)
        chosen.append((h, clause, at, (h, real, model, findings, diffs)))
    shrunk = shrink_many(W, [c[:3] for c in chosen]) if chosen else []
    finals = evaluate(W, shrunk, batch=max(1, len(shrunk))) if shrunk else []
    for (h, clause, at, orig), hs, e in zip(chosen, shrunk, finals):
        fs = [f for f in e[3] if f[0] == clause]
        if not fs:
            hs, e = h, orig
            fs = [f for f in e[3] if f[0] == clause]
        fkey = f'C17:{clause}:{W.shape(hs)}'
        if fkey in reported:
            continue
        reported[fkey] = True
        ex.failures.append(Failure(
            key=fkey,
            what=f'history {W.describe(hs)}: {fs[0][2]}',
            replay={'clause': clause, 'history': hs, 'history_readable': W.describe(hs),
                    'real': [{k: v for k, v in r.items() if k in ('out', 'obj', 'msg', 'repr')} for r in e[1]['results']],
                    'isolated': e[1]['isolated'], 'specification': [m[:2] for m in e[2]],
                    'all_clauses_failing': sorted({f[0] for f in e[3]}), 'unshrunk_history': h}))
    if ck.tier == 'thorough':
        # source line coverage of the anchored files while ALL histories of this run execute in one process
        ans = run_real_batches([hists], W.names, False, coverage=True)[0]
        ex.extra['source_line_coverage'] = ans.get('coverage')
    ex.distinct_nontrivial = len(nontrivial)
    ex.samples = [{'history': W.describe(h)} for h in hists[len(corpus(W)):len(corpus(W)) + 3]]
    ex.extra.update({'correspondence_first_diffs': ex.corr_diffs[:5], 'outcome_distribution': outcomes, 'distinct_histories': len(seen), 'options_passed': optuse,
                     'value_categories_passed': catuse, 'clauses_failing_histories': clause_hits,
                     'corpus_histories': len(corpus(W)), 'subprocesses': -(-len(hists) // batch),
                     'thread_bursts_8x': THREAD_STATS['rounds'], 'extracted_options': len(W.names), 'hashability_validated_in_source': W.tb['hash_check']})
    return ex


def _hashable(x) -> bool:
    try:
        hash(x)
        return True
    except TypeError:
        return False


def replay(data: dict) -> int:
    W = load_world()
    h = data['history']
    if data.get('clause') == 'threads':
        THREAD_STATS.update(rounds=0, bad=[])
        for _ in range(20):
            evaluate(W, [h], batch=1, threads=True)
        print(f'thread bursts: {THREAD_STATS["rounds"]}, with different objects: {len(THREAD_STATS["bad"])}')
        return 1 if THREAD_STATS['bad'] else 0
    e = evaluate(W, [h], batch=1)[0]
    print('history:')
    for line in W.describe(h):
        print('  ', line)
    print('real outcomes:   ', [(r['out'], r.get('obj')) for r in e[1]['results']])
    print('fresh-table outcomes of each call:', e[1]['isolated'])
    print('specification:   ', [tuple(m[:2]) for m in e[2]])
    fs = [f for f in e[3] if f[0] == data.get('clause')] or e[3]
    if not fs:
        print('replay: the property holds on this history (not reproduced)')
        return 0
    for f in fs:
        print(f'replay: clause {f[0]} fails: {f[2]}')
    return 1


def main(ck: Check) -> int:
    quick = ck.tier == 'quick'
    xerr = None
    try:
        xconf.extract()
    except xconf.ExtractError as e:
        xerr = e
    proof = ck.prove(MODULE, PROP_FILE)
    ex = explore(ck, n=1000 if quick else 24000, maxlen=9, seed=ck.seed)
    ck.decide(proof, ex, deep_search=lambda: explore(ck, n=12000, maxlen=10, seed=ck.seed + 1000))
    ck.evidence(proof, ex,
                level_note='proved for every well-formed option table, every finite history and every keyword dictionary (Lean); the '
                           'table is re-extracted from the source on every run; model tied to the real class by lock-step differential '
                           'runs in fresh subprocesses; the property clauses are also evaluated on the real outputs alone',
                assumptions=['values are first-order terms with Python ==/hash (numbers compare by value across bool/int/float/complex/'
                             'Decimal/Fraction/IntEnum; everything else structural or by identity); user classes overriding __eq__/'
                             '__hash__/__bool__ inconsistently are outside the model',
                             'unknown keyword names (CPython binding TypeError) and warnings promoted to errors are not driven',
                             'single-threaded histories (the lock in __new__; interleavings are C15)',
                             'translator recognises the validator conditions textually; an unrecognised shape keeps the last table and '
                             'is reported through the failing-input search'] + ([f'translator: {xerr}'] if xerr else []))
    return ck.finish()
