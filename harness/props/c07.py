"""C07 — string and postponed annotations are checked exactly like evaluated ones (DESIGN §4 C07, partial).

Tie. Generated PROGRAMS (source text) define one @beartype-checked callable at module level, in (nested) class
bodies (method-level or class-level decoration) or in closures, with the names of its annotation bound before the
decoration, after it but before a call, after a first call, or never, in module / enclosing-function / class scope.
Every program is rendered in five variants (evaluated annotation, whole-annotation string literal, that literal
under `from __future__ import annotations`, the evaluated text under that import = PEP 563, strings only at the
user-class names) and run in a fresh interpreter
(harness/impl/c07run.py) under FORCED sampler draws; each probe yields a verdict vector over a fixed object set
(instances, subclass instances, same-named decoy classes, containers of them in every position).

The same program goes, as a history of bind / enter / leave / def / decorate / call events, through the Lean model
(Core/Fwd.lean), which answers per call with the hint the IMPLEMENTATION checks against (proxies forced: class,
non-class referent through the proxy, name-based fake, raising leaf) and the hint the SPECIFICATION prescribes
(Python's scoping at the def point, evaluated now). Both are turned back into evaluated hint objects in the worker;
reference callables decorated with them give the expected vectors (the Bear model's `chk` gives them a second time
for the implementation side).
Programs may REBIND a name in one scope between two decorations (class redefined, alias reassigned): the specified
hint of a def is what its annotation denotes WHEN THE DEF EXECUTES (the driver records the state of every def point:
`specCall` / `specDef` of Core/Fwd.lean) — a name bound then keeps that object whatever it is rebound to later; only
a name unbound at the def point (string forms only) is read in the state of the call.
  * real vector != vector of the specification hint, or variants differ  -> the property is broken on the real code
  * real vector != vector of the implementation-model hint, crash / cache contents differ -> correspondence
"""
from __future__ import annotations

import concurrent.futures as cf
import copy
import json
import os
import random
import shutil
import tempfile

from ..common import (LEAN, Check, Explore, Failure, lean_driver, parse_sexp, sexp, subproc_json)

MODULE = 'BearVerif.Props.C07'
PROP_FILE = LEAN / 'BearVerif/Props/C07.lean'
DRAWS = [0, 1]
# eval: evaluated annotation; str: the whole annotation as a string literal; future: that string literal under
# `from __future__ import annotations` (a postponed string literal: the string of a string); pep563: the evaluated
# variant's text under `from __future__ import annotations` (PEP 563 proper); inner: strings only at the user names
VARIANTS = ['eval', 'str', 'future', 'pep563', 'inner']

# ---------------------------------------------------------------------------
# the fixed part of every program: builtins, prelude imports, helper module
# ---------------------------------------------------------------------------
BUILTINS = {'int': 1, 'str': 2, 'float': 3, 'bytes': 4, 'bool': 5, 'list': 6, 'tuple': 7, 'dict': 8, 'set': 9,
            'frozenset': 10, 'object': 11, 'type': 12}
PRELUDE = {'Optional': 20, 'Union': 21, 'Literal': 22, 'List': 23, 'Dict': 24, 'Sequence': 25, 'typing': 30, 'hm': 31}
SPECIAL_EXPR = {**{i: n for n, i in BUILTINS.items()},
                20: 'typing.Optional', 21: 'typing.Union', 22: 'typing.Literal', 23: 'typing.List', 24: 'typing.Dict',
                25: 'typing.Sequence', 30: 'typing', 31: 'hm', 32: 'hm.Cls', 33: 'hm.Sub', 34: 'hm.Sub.Inner'}
HEAP0 = {30: {'Optional': 20, 'Union': 21, 'Literal': 22, 'List': 23, 'Dict': 24, 'Sequence': 25},
         31: {'Cls': 32, 'Sub': 33}, 33: {'Inner': 34}}
HELPER_SRC = 'class Cls:\n    pass\n\n\nclass Sub:\n    class Inner:\n        pass\n'
PRELUDE_SRC = ('from typing import Optional, Union, Literal, List, Dict, Sequence\nimport typing\n'
               "import c07_helper as hm\nfrom beartype import beartype\nT_ = typing.TypeVar('T_')\n")
GENERIC_BASE = 'typing.Generic[T_]'          # base of the value kind "user generic class": `K[int]` is legal
HELPER_CLASSES = [32, 34]

BASE_OBJS = [['i', 1], ['s', 'a'], ['f', 2.5], ['none'], ['b', True], ['list', []], ['list', [['i', 1]]],
             ['list', [['s', 'a']]], ['list', [['i', 1], ['s', 'a']]], ['list', [['s', 'a'], ['i', 1]]],
             ['tuple', [['i', 1], ['s', 'a']]], ['tuple', [['i', 1]]], ['tuple', []],
             ['dict', [[['s', 'a'], ['i', 1]]]], ['dict', [[['s', 'a'], ['s', 'b']]]], ['set', [['i', 1]]],
             ['list', [['list', [['i', 1]]]]], ['list', [['list', [['s', 'a']]]]], ['list', [['list', [['i', 1], ['s', 'a']]]]]]


def class_objs(c: int) -> list:
    I = ['inst', c]
    return [I, ['subinst', c], ['decoy', c], ['list', [I]], ['list', [['i', 1], I]], ['list', [I, ['i', 1]]],
            ['list', [['decoy', c], I]], ['list', [I, ['decoy', c]]], ['tuple', [['i', 1], I]],
            ['tuple', [['i', 1], ['decoy', c]]], ['dict', [[['s', 'a'], I]]], ['list', [['list', [I]]]], ['set', [I]]]


# ---------------------------------------------------------------------------
# hint expressions:  ['n', name] ['a', e, name] ['s', e, [es]] ['o', a, b] ['l', lit] ['q', e]
# ---------------------------------------------------------------------------
def N(n): return ['n', n]
def A(e, n): return ['a', e, n]
def S(e, *es): return ['s', e, list(es)]
def O(a, b): return ['o', a, b]
def L(v): return ['l', v]


LIT_SRC = {'none': 'None', 'ellipsis': '...'}


def lit_src(l, quote="'"):
    if isinstance(l, str):
        return LIT_SRC[l]
    if l[0] == 'b':
        return 'True' if l[1] == 'true' else 'False'
    if l[0] == 'i':
        return str(l[1])
    assert "'" not in l[1] and '"' not in l[1] and '\\' not in l[1]
    return quote + l[1] + quote


def render(e, quote="'") -> str:
    """source text of a hint expression; `source_tie` checks on every run that CPython's own parser reads the
    text back as exactly this expression (the Lean model represents a string annotation by the expression it
    parses to: `HExpr.quoted`)"""
    k = e[0]
    if k == 'n':
        return e[1]
    if k == 'a':
        inner = render(e[1], quote)
        return (f'({inner})' if e[1][0] == 'o' else inner) + '.' + e[2]
    if k == 's':
        inner = render(e[1], quote)
        return (f'({inner})' if e[1][0] == 'o' else inner) + '[' + ', '.join(render(x, quote) for x in e[2]) + ']'
    if k == 'o':
        r = render(e[2], quote)
        return render(e[1], quote) + ' | ' + (f'({r})' if e[2][0] == 'o' else r)
    if k == 'l':
        return lit_src(e[1], quote)
    if k == 'q':
        other = '"' if quote == "'" else "'"
        return quote + render(e[1], other) + quote
    raise ValueError(e)


def is_chain(e):
    return e[0] == 'n' or (e[0] == 'a' and is_chain(e[1]))


def chain_root(e):
    return e[1] if e[0] == 'n' else chain_root(e[1])


def unionize(e):
    """`a | b` -> `Union[a, b]` (a string operand of `|` is a TypeError)"""
    k = e[0]
    if k == 'o':
        return S(N('Union'), unionize(e[1]), unionize(e[2]))
    if k == 'a':
        return A(unionize(e[1]), e[2])
    if k == 's':
        return ['s', unionize(e[1]), [unionize(x) for x in e[2]]]
    return e


def quote_leaves(e, user):
    k = e[0]
    if is_chain(e):
        return ['q', e] if chain_root(e) in user else e
    if k == 'a':
        return A(quote_leaves(e[1], user), e[2])
    if k == 's':
        if e[1] == N('Literal'):
            return e
        if is_chain(e[1]) and chain_root(e[1]) in user:
            # the subscripted NAME itself is a user name (`K[int]`): `'K'[int]` would subscript a str, so the
            # subscription is written as one string (`list['K[int]']`)
            return ['q', e]
        return ['s', quote_leaves(e[1], user), [quote_leaves(x, user) for x in e[2]]]
    if k == 'o':
        return O(quote_leaves(e[1], user), quote_leaves(e[2], user))
    return e


def variant_expr(e, variant, user=None):
    user = {n for n in names_of(e) if n not in BUILTINS and (n == 'hm' or n not in PRELUDE)}
    if variant == 'eval':
        return e
    if variant in ('str', 'future', 'pep563'):
        return ['q', e]
    q = quote_leaves(unionize(e), user)
    return q


def names_of(e):
    k = e[0]
    if k == 'n':
        return [e[1]]
    if k in ('a', 'q'):
        return names_of(e[1])
    if k == 's':
        return names_of(e[1]) + [n for x in e[2] for n in names_of(x)]
    if k == 'o':
        return names_of(e[1]) + names_of(e[2])
    return []


# ---------------------------------------------------------------------------
# abstract programs
#   ['cls', name, id, base|None, [[nested name, nested id], …]]      plain class (attributes = nested plain classes)
#   ['alias', name, hexpr]                                             name = <hexpr>
#   ['func', name, code, [stmts]]                                      def name(): stmts   followed by   name()
#   ['class', name, id, code, deco, [stmts]]                           class with a body holding defs
#   ['def', fid, name, hexpr, deco]                                    [@beartype] def name([self,] x: HINT)
#   ['probe', tag, fid]
# ---------------------------------------------------------------------------
def user_names(stmts) -> set:
    out = set()
    for st in stmts:
        if st[0] in ('cls', 'alias'):
            out.add(st[1])
        elif st[0] == 'func':
            out.add(st[1])
            out |= user_names(st[3])
        elif st[0] == 'class':
            out.add(st[1])
            out |= user_names(st[5])
    return out


def class_ids(stmts) -> list:
    out = []
    for st in stmts:
        if st[0] == 'cls':
            out.append(st[2])
            out += [i for _, i in st[4]]
        elif st[0] == 'func':
            out += class_ids(st[3])
        elif st[0] == 'class':
            out.append(st[2])
            out += class_ids(st[5])
    return out


def defs_in(stmts, path=()):
    """(fid, name, class path) of every def inside a class body, recursively through nested classes"""
    out = []
    for st in stmts:
        if st[0] == 'def':
            out.append((st[1], st[2], path))
        elif st[0] == 'class':
            out += defs_in(st[5], path + ((st[1], st[2]),))
    return out


def render_program(stmts, variant, all_names=None) -> str:
    user = user_names(stmts) | {'hm'} if all_names is None else all_names
    lines = []
    if variant in ('future', 'pep563'):
        lines.append('from __future__ import annotations')
    lines += PRELUDE_SRC.splitlines()

    def emit(sts, ind, in_class, in_deco_class):
        pad = '    ' * ind
        if not sts:
            lines.append(pad + 'pass')
        for st in sts:
            k = st[0]
            if k == 'cls':
                lines.append(f'{pad}class {st[1]}' + (f'({st[3]})' if st[3] else '') + ':')
                if st[4]:
                    for nn, ni in st[4]:
                        lines.append(f'{pad}    class {nn}:')
                        lines.append(f'{pad}        pass')
                        lines.append(f'{pad}    __reg__({ni}, {nn})')
                else:
                    lines.append(f'{pad}    pass')
                lines.append(f'{pad}__reg__({st[2]}, {st[1]})')
            elif k == 'alias':
                lines.append(f'{pad}{st[1]} = {render(st[2])}')
            elif k == 'func':
                lines.append(f'{pad}def {st[1]}():')
                emit(st[3], ind + 1, False, False)
                lines.append(f'{pad}{st[1]}()')
            elif k == 'class':
                if st[4]:
                    lines.append(f'{pad}@beartype')
                lines.append(f'{pad}class {st[1]}:')
                emit(st[5], ind + 1, True, in_deco_class or st[4])
                lines.append(f'{pad}__reg__({st[2]}, {st[1]})')
                if st[4] and not in_deco_class:
                    for fid, fname, cpath in defs_in(st[5]):
                        owner = '.'.join([st[1]] + [c for c, _ in cpath])
                        lines.append(f"{pad}__reg__({fid}, {owner}.__dict__['{fname}'], 'func')")
            elif k == 'def':
                if st[4]:
                    lines.append(f'{pad}@beartype')
                # 'pep563': the annotation is written as in the evaluated variant and postponed by the future import
                ann = render(st[3] if variant == 'pep563' else variant_expr(st[3], variant, user))
                lines.append(f'{pad}def {st[2]}({"self, " if in_class else ""}x: {ann}):')
                lines.append(f'{pad}    return None')
                if not in_deco_class:
                    lines.append(f"{pad}__reg__({st[1]}, {st[2]}, 'func')")
            elif k == 'probe':
                lines.append(f"{pad}__probe__('{st[1]}', {st[2]}, {METHODS_PLACEHOLDER})")
            else:
                raise ValueError(st)
    emit(stmts, 0, False, False)
    src = '\n'.join(lines) + '\n'
    return src


METHODS_PLACEHOLDER = '__IS_METHOD__'


def finalize_src(src: str, methods: set) -> str:
    out = []
    for line in src.splitlines():
        if METHODS_PLACEHOLDER in line:
            fid = int(line.split(',')[1])
            line = line.replace(METHODS_PLACEHOLDER, 'True' if fid in methods else 'False')
        out.append(line)
    return '\n'.join(out) + '\n'


def method_fids(stmts, in_class=False) -> set:
    out = set()
    for st in stmts:
        if st[0] == 'def' and in_class:
            out.add(st[1])
        elif st[0] == 'func':
            out |= method_fids(st[3], False)
        elif st[0] == 'class':
            out |= method_fids(st[5], True)
    return out


class Ids:
    def __init__(self):
        self.n = 1000

    def fresh(self):
        self.n += 1
        return self.n


def events(stmts, variant) -> tuple[list, dict]:
    """(model events, static heap additions) of a program; every event carries the index path of its statement"""
    user = user_names(stmts) | {'hm'}
    heap = {}
    evs = []
    ids = Ids()

    def walk(sts, in_deco_class):
        for st in sts:
            k = st[0]
            if k == 'cls':
                heap[st[2]] = {nn: ni for nn, ni in st[4]}
                evs.append(['bindV', st[1], ['obj', st[2]]])
            elif k == 'alias':
                evs.append(['bindE', st[1], st[2]])
            elif k == 'func':
                evs.append(['bindV', st[1], ['obj', ids.fresh()]])
                evs.append(['enter', 'fn', st[2], st[1]])
                walk(st[3], False)
                evs.append(['leave', 0])
            elif k == 'class':
                evs.append(['enter', 'cls', st[3], st[1]])
                walk(st[5], in_deco_class or st[4])
                evs.append(['leave', st[2]])
                if st[4] and not in_deco_class:
                    for fid, fname, cpath in defs_in(st[5]):
                        evs.append(['decorate', fid, [[st[1], st[2]]] + [[c, i] for c, i in cpath]])
                evs.append(['bindV', st[1], ['obj', st[2]]])
            elif k == 'def':
                evs.append(['def', st[1], st[2], variant_expr(st[3], variant, user)])
                if st[4]:
                    evs.append(['decorate', st[1], []])
                evs.append(['bindV', st[2], ['obj', ids.fresh()]])
            elif k == 'probe':
                evs.append(['call', st[2], st[1]])
    walk(stmts, False)
    return evs, heap


def lit_sx(l):
    if isinstance(l, str):
        return l
    if l[0] == 'str':
        return ['str', l[1]]
    return [l[0], str(l[1])]


def expr_sx(e):
    k = e[0]
    if k == 'n':
        return ['n', e[1]]
    if k == 'a':
        return ['a', expr_sx(e[1]), e[2]]
    if k == 's':
        return ['s', expr_sx(e[1]), [expr_sx(x) for x in e[2]]]
    if k == 'o':
        return ['o', expr_sx(e[1]), expr_sx(e[2])]
    if k == 'l':
        return ['l', lit_sx(e[1])]
    if k == 'q':
        return ['q', expr_sx(e[1])]
    raise ValueError(e)


def model_line(stmts, variant) -> tuple[str, list]:
    evs, heap = events(stmts, variant)
    sx = []
    for ev in evs:
        if ev[0] == 'bindV':
            sx.append(['bindV', ev[1], ['obj', ev[2][1]]])
        elif ev[0] == 'bindE':
            sx.append(['bindE', ev[1], expr_sx(ev[2])])
        elif ev[0] == 'def':
            sx.append(['def', ev[1], ev[2], expr_sx(ev[3])])
        elif ev[0] == 'call':
            sx.append(['call', ev[1]])
        else:
            sx.append(ev)
    prelude = [['bindV', n, ['obj', i]] for n, i in PRELUDE.items()]
    full_heap = {**HEAP0, **heap}
    hp = [[i] + [[n, ['obj', j]] for n, j in attrs.items()] for i, attrs in full_heap.items()]
    bi = [[n, ['obj', i]] for n, i in BUILTINS.items()]
    return sexp(['c07', 'run', bi, hp, prelude + sx]), [None] * len(prelude) + evs


def run_model(progs: list) -> list:
    """per program, per variant: {'crash': None | (event index, kind, arg), 'calls': {tag: {'impl','spec','cache'}}}"""
    lines, metas = [], []
    for p in progs:
        for v in VARIANTS:
            line, evs = model_line(p['stmts'], v)
            lines.append(line)
            metas.append(evs)
    res = lean_driver(lines, 'C07')
    out, k = [], 0
    for p in progs:
        per = {}
        for v in VARIANTS:
            r = parse_sexp(res[k])
            assert r[0] == 'ok', (res[k], lines[k])
            evs = metas[k]
            k += 1
            calls, crash = {}, None
            for ev, o in zip(evs, r[1]):
                if o == 'silent':
                    continue
                if o[0] == 'crash':
                    crash = {'kind': o[1], 'arg': o[2], 'event': ev}
                    break
                if o[0] == 'called' and ev is not None:
                    calls[ev[2]] = {'impl': o[1], 'spec': o[2], 'cache': sorted(['.'.join(c[0]), c[1]] for c in o[3]),
                                    'fresh': sorted(['.'.join(c[0]), c[1]] for c in o[4])}
            per[v] = {'crash': crash, 'calls': calls}
        out.append(per)
    return out


# ---------------------------------------------------------------------------
# generator
# ---------------------------------------------------------------------------
PLACEMENTS = {
    'mod': [],
    'meth': [('cls', 'C', False)],
    'meth2': [('cls', 'C', False), ('cls', 'D', False)],
    'cdeco': [('cls', 'C', True)],
    'cdeco2': [('cls', 'C', True), ('cls', 'D', False)],
    'cdeco_in': [('cls', 'C', False), ('cls', 'D', True)],
    'clo1': [('fn', 'outer')],
    'clo2': [('fn', 'outer'), ('fn', 'mid')],
    'fn_meth': [('fn', 'outer'), ('cls', 'C', False)],
    'fn_cdeco': [('fn', 'outer'), ('cls', 'C', True)],
    'fn_cdeco2': [('fn', 'outer'), ('cls', 'C', True), ('cls', 'D', False)],
    'clo2_meth': [('fn', 'outer'), ('fn', 'mid'), ('cls', 'C', False)],
    # three classes deep (the class stack handed down by a whole-class decoration grows with every level)
    'cdeco3': [('cls', 'C', True), ('cls', 'D', False), ('cls', 'E', False)],
    'fn_cdeco3': [('fn', 'outer'), ('cls', 'C', True), ('cls', 'D', False), ('cls', 'E', False)],
    'fn_meth3': [('fn', 'outer'), ('cls', 'C', False), ('cls', 'D', False), ('cls', 'E', False)],
}
PLACEMENT_WEIGHTS = {'mod': 3, 'meth': 3, 'meth2': 1, 'cdeco': 2, 'cdeco2': 1, 'cdeco_in': 1, 'clo1': 3, 'clo2': 2,
                     'fn_meth': 1, 'fn_cdeco': 1, 'fn_cdeco2': 1, 'clo2_meth': 1, 'cdeco3': 1, 'fn_cdeco3': 1.5, 'fn_meth3': 0.5}

SHAPES1 = {
    'bare': lambda a: a,
    'or_int': lambda a: O(a, N('int')),
    'int_or': lambda a: O(N('int'), a),
    'optional': lambda a: S(N('Optional'), a),
    'union_str': lambda a: S(N('Union'), a, N('str')),
    'list': lambda a: S(N('list'), a),
    'List': lambda a: S(N('List'), a),
    'tuple_var': lambda a: S(N('tuple'), a, L('ellipsis')),
    'tuple_fix': lambda a: S(N('tuple'), N('int'), a),
    'dict_val': lambda a: S(N('dict'), N('str'), a),
    'sequence': lambda a: S(N('Sequence'), a),
    'list_list': lambda a: S(N('list'), S(N('list'), a)),
    'set': lambda a: S(N('set'), a),
    'typing_optional': lambda a: S(A(N('typing'), 'Optional'), a),
    'literal_or': lambda a: O(S(N('Literal'), L(['i', 1]), L(['str', 'a'])), a),
    'list_or_none': lambda a: O(S(N('list'), a), L('none')),
    'or_none': lambda a: O(a, L('none')),
}
SHAPES2 = {
    'or2': lambda a, b: O(a, b),
    'tuple2': lambda a, b: S(N('tuple'), a, b),
    'dict_or2': lambda a, b: S(N('dict'), N('str'), O(a, b)),
    'union_list': lambda a, b: S(N('Union'), a, S(N('list'), b)),
    'list_or_list': lambda a, b: O(S(N('list'), a), S(N('list'), b)),
}
LEAF_NAMES = ['K', 'T', 'Later', 'Node', 'U']
VALUE_KINDS = ['cls', 'cls', 'cls', 'holder', 'alias_seq', 'alias_union', 'alias_cls', 'generic', 'generic', 'generic',
               'alias_gen']
# value kinds whose leaf is written SUBSCRIPTED (`K[int]`): a user generic class / an alias of a subscriptable builtin.
# Every shape then wraps the subscripted name: `K[int]`, `list[K[int]]`, `K[int] | None`, `Optional[K[int]]`, …
SUBSCRIPTED_KINDS = ('generic', 'alias_gen')


def leaf_expr(name, kind):
    if kind == 'holder':
        return A(N(name), 'In')
    if kind in SUBSCRIPTED_KINDS:
        return S(N(name), N('int'))
    return N(name)


def wchoice(rng, table: dict):
    ks = list(table)
    return rng.choices(ks, weights=[table[k] for k in ks])[0]


class Builder:
    def __init__(self, rng, placement):
        self.rng = rng
        self.placement = placement
        self.scopes = [{'kind': 'mod', 'pre': [], 'post': []}] + [
            {'kind': s[0], 'name': s[1], 'deco': (s[2] if s[0] == 'cls' else False), 'pre': [], 'post': []}
            for s in PLACEMENTS[placement]]
        self.nid = 100
        self.ntag = 0
        self.fid = 500
        self.leaves = []

    def fresh(self):
        self.nid += 1
        return self.nid

    def tag(self):
        self.ntag += 1
        return f'p{self.ntag}'

    def bind_stmt(self, name, kind, alt=False):
        if kind == 'cls':
            return ['cls', name, self.fresh(), None, []]
        if kind == 'holder':
            return ['cls', name, self.fresh(), None, [['In', self.fresh()]]]
        if kind == 'alias_seq':
            return ['alias', name, S(N('list'), N('str' if alt else 'int'))]
        if kind == 'alias_union':
            return ['alias', name, O(N('float'), N('bytes')) if alt else O(N('int'), N('str'))]
        if kind == 'alias_cls':
            return ['alias', name, N('float' if alt else 'int')]
        if kind == 'generic':
            return ['cls', name, self.fresh(), GENERIC_BASE, []]
        if kind == 'alias_gen':
            return ['alias', name, N('set' if alt else 'list')]
        raise ValueError(kind)

    def in_deco_body(self, i):
        """is scope i (or an enclosing one) the body of a class decorated as a whole?"""
        return any(s['kind'] == 'cls' and s['deco'] for s in self.scopes[1:i + 1])

    def can_probe(self, i):
        return not self.in_deco_body(i)

    def build(self, hint, leaves, probe_after_def, end_probes):
        innermost = len(self.scopes) - 1
        in_class = self.scopes[innermost]['kind'] == 'cls'
        # is the def itself decorated? (not when a class around it is decorated as a whole)
        deco = not self.in_deco_body(innermost)
        d = ['def', self.fid, 'm' if in_class else 'f', hint, deco]
        for lf in leaves:
            for site, time, kind, alt in lf['binds']:
                st = self.bind_stmt(lf['name'], kind, alt)
                sc = self.scopes[site]
                if time == 'pre':
                    sc['pre'].append(st)
                else:
                    sc['post'].append(st)
                    if self.can_probe(site) and lf.get('probe_after', True):
                        sc['post'].append(['probe', self.tag(), self.fid])
        # assemble inside out
        body = [d]
        if probe_after_def and self.can_probe(innermost):
            body.append(['probe', self.tag(), self.fid])
        for i in range(innermost, 0, -1):
            sc = self.scopes[i]
            inner = sc['pre'] + body + sc['post']
            if sc['kind'] == 'fn':
                body = [['func', sc['name'], self.fresh(), inner]]
            else:
                body = [['class', sc['name'], self.fresh(), self.fresh(), sc['deco'], inner]]
            # a probe in the ENCLOSING scope right after this scope ends (e.g. after mid() returned, outer running)
            if i > 1 and self.can_probe(i - 1) and self.rng.random() < 0.5:
                body.append(['probe', self.tag(), self.fid])
        m = self.scopes[0]
        stmts = m['pre'] + body + m['post']
        first = True
        out = []
        for st in stmts:
            out.append(st)
        if not any(s[0] == 'probe' for s in m['post']) or True:
            for _ in range(end_probes):
                out.append(['probe', self.tag(), self.fid])
        # a probe at module level right after the placement body, before the module-level late bindings
        k = len(m['pre']) + len(body)
        if m['post'] and self.rng.random() < 0.7:
            out.insert(k, ['probe', self.tag(), self.fid])
        return out


def gen_program(rng: random.Random) -> dict:
    placement = wchoice(rng, PLACEMENT_WEIGHTS)
    b = Builder(rng, placement)
    nsc = len(b.scopes)
    nleaves = 1 if rng.random() < 0.7 else 2
    names = rng.sample(LEAF_NAMES, nleaves)
    leaves, exprs = [], []
    for name in names:
        r = rng.random()
        cls_scopes = [(i, s) for i, s in enumerate(b.scopes) if s['kind'] == 'cls']
        if r < 0.10:
            exprs.append(rng.choice([A(N('hm'), 'Cls'), A(A(N('hm'), 'Sub'), 'Inner')]))
            continue
        if r < 0.22 and cls_scopes:
            # self reference: an enclosing class by (dotted) name
            j = rng.randrange(len(cls_scopes))
            e = N(cls_scopes[0][1]['name'])
            for _, s in cls_scopes[1:j + 1]:
                e = A(e, s['name'])
            exprs.append(e)
            continue
        kind = rng.choice(VALUE_KINDS)
        site = rng.randrange(nsc)
        time = rng.choices(['pre', 'post', 'never'], weights=[4, 4, 1.5])[0]
        if name in BUILTINS:
            time = 'pre'
        binds = []
        if time != 'never':
            binds.append((site, time, kind, False))
        if time == 'pre' and rng.random() < 0.4 and nsc > 1:
            j = rng.choice([i for i in range(nsc) if i != site])
            # a shadowing binding of a subscripted name must be subscriptable too (else the evaluated variant dies)
            binds.append((j, 'pre', rng.choice(SUBSCRIPTED_KINDS if kind in SUBSCRIPTED_KINDS
                                               else ['cls', 'alias_cls', 'alias_cls']), True))
        leaves.append({'name': name, 'binds': binds, 'probe_after': rng.random() < 0.85})
        exprs.append(leaf_expr(name, kind))
    if nleaves == 1:
        shape = rng.choice(list(SHAPES1))
        hint = SHAPES1[shape](exprs[0])
    else:
        shape = rng.choice(list(SHAPES2))
        hint = SHAPES2[shape](exprs[0], exprs[1])
    stmts = b.build(hint, leaves, probe_after_def=rng.random() < 0.6, end_probes=rng.choice([1, 1, 2]))
    return {'stmts': stmts, 'placement': placement, 'shape': shape}


REBIND_PLACEMENTS = {'mod': 5, 'clo1': 2, 'meth': 2}
REBIND_KINDS = ['cls', 'cls', 'cls', 'alias_cls', 'alias_seq', 'alias_union', 'holder', 'generic', 'alias_gen']


def gen_rebind(rng: random.Random) -> dict:
    """one name bound, a callable decorated, the SAME name rebound in the SAME scope (class redefined, alias reassigned,
    class <-> alias), a second callable decorated with the same annotation text; sometimes a third after a further
    rebinding. Probes of every callable after every step (inside the scope and after it ended)."""
    placement = wchoice(rng, REBIND_PLACEMENTS)
    b = Builder(rng, 'mod')
    name = rng.choice(LEAF_NAMES)
    k1 = rng.choice(REBIND_KINDS)
    if k1 in SUBSCRIPTED_KINDS:
        later = list(SUBSCRIPTED_KINDS)
    elif k1 == 'holder':
        later = ['holder']
    else:
        later = ['cls', 'cls', 'alias_cls', 'alias_seq', 'alias_union']
    shape = rng.choice(list(SHAPES1))
    hint = SHAPES1[shape](leaf_expr(name, k1))
    in_class = placement == 'meth'
    fnames = ['m', 'm2', 'm3'] if in_class else ['f', 'g', 'h']
    ndefs = 2 if rng.random() < 0.75 else 3
    body, fids = [], []
    for i in range(ndefs):
        body.append(b.bind_stmt(name, k1 if i == 0 else rng.choice(later), alt=(i % 2 == 1)))
        fid = 500 + i
        fids.append(fid)
        body.append(['def', fid, fnames[i], hint, True])
        for f in (fids if rng.random() < 0.5 else [fid]):
            body.append(['probe', b.tag(), f])
    if rng.random() < 0.5:                                   # a last rebinding no callable is decorated after
        body.append(b.bind_stmt(name, rng.choice(later), alt=(ndefs % 2 == 1)))
    for f in reversed(fids):
        body.append(['probe', b.tag(), f])
    if placement == 'clo1':
        body = [['func', 'outer', b.fresh(), body]]
    elif placement == 'meth':
        body = [['class', 'C', b.fresh(), b.fresh(), False, body]]
    if placement != 'mod':
        for f in fids:
            body.append(['probe', b.tag(), f])
    return {'stmts': body, 'placement': f'rebind-{placement}', 'shape': f'rebind-{shape}'}


# ---------------------------------------------------------------------------
# running the real code
# ---------------------------------------------------------------------------
def objspecs_of(stmts) -> list:
    out = list(BASE_OBJS)
    uses_helper = any('hm' in names_of(d[3]) for d in all_defs(stmts))
    for c in (HELPER_CLASSES if uses_helper else []) + class_ids(stmts):
        out += class_objs(c)
    return out


def payload_of(prog: dict, model: dict, tmp: str, bear: bool) -> dict:
    methods = method_fids(prog['stmts'])
    variants = {}
    for v in VARIANTS:
        src = finalize_src(render_program(prog['stmts'], v), methods)
        exp = {tag: {'impl': c['impl'], 'spec': c['spec']} for tag, c in model[v]['calls'].items()}
        variants[v] = {'src': src, 'expect': exp}
    return {'tmp': tmp, 'draws': DRAWS, 'helper': HELPER_SRC, 'variants': variants, 'objspecs': objspecs_of(prog['stmts']),
            'special': {str(i): e for i, e in SPECIAL_EXPR.items()}, 'bear': bear}


def run_real(progs: list, models: list, bear_every: int = 0) -> list:
    root = tempfile.mkdtemp(prefix='c07_')
    try:
        def one(i):
            tmp = os.path.join(root, f'p{i}')
            os.mkdir(tmp)
            pl = payload_of(progs[i], models[i], tmp, bool(bear_every) and i % bear_every == 0)
            err = ''
            for attempt in range(2):            # a worker killed by the machine (load, OOM) is retried once
                try:
                    return subproc_json('harness.impl.c07run', pl, timeout=900,
                                        env={'PYTHONDONTWRITEBYTECODE': '', 'PYTHONPYCACHEPREFIX': os.path.join(root, 'pyc')})
                except Exception as e:                              # noqa: BLE001
                    err = f'attempt {attempt + 1}: {str(e)[-1500:]}'
            return {'worker_error': err}
        with cf.ThreadPoolExecutor(max_workers=16) as ex:
            return list(ex.map(one, range(len(progs))))
    finally:
        shutil.rmtree(root, ignore_errors=True)


# ---------------------------------------------------------------------------
# oracles
# ---------------------------------------------------------------------------
def leaves_diff(a, b, path=()):
    """first differing position of two model terms: (path, sub-term a, sub-term b) or None"""
    if a == b:
        return None
    if a[0] != b[0] or a[0] in ('obj', 'fake', 'unres', 'lit', 'str'):
        return (path, a, b)
    if a[0] == 'via':
        return leaves_diff(a[1], b[1], path + ('via',))
    if a[0] == 'bor':
        return leaves_diff(a[1], b[1], path + (0,)) or leaves_diff(a[2], b[2], path + (1,))
    if a[0] == 'sub':
        d = leaves_diff(a[1], b[1], path + ('h',))
        if d:
            return d
        if len(a[2]) != len(b[2]):
            return (path, a, b)
        for i, (x, y) in enumerate(zip(a[2], b[2])):
            d = leaves_diff(x, y, path + (i,))
            if d:
                return d
    return (path, a, b)


def expr_at(e, path):
    """the source sub-expression at a term path (terms mirror the expression tree)"""
    while e[0] == 'q':
        e = e[1]
    for p in path:
        while e[0] == 'q':
            e = e[1]
        if p == 'via':
            continue
        if e[0] == 'o':
            e = e[1 + p]
        elif e[0] == 's':
            e = e[1] if p == 'h' else e[2][p]
        else:
            break
    while e[0] == 'q':
        e = e[1]
    return e


def scope_chain(stmts, fid=None):
    """(chain of (kind, name, deco) from the module down to the def, the def statement)"""
    def find(sts, chain):
        for st in sts:
            if st[0] == 'def' and (fid is None or st[1] == fid):
                return chain, st
            if st[0] == 'func':
                r = find(st[3], chain + [('fn', st[1], False)])
                if r:
                    return r
            if st[0] == 'class':
                r = find(st[5], chain + [('cls', st[1], st[4])])
                if r:
                    return r
        return None
    return find(stmts, [])


def binds_of(stmts, name, chain, fid=None):
    """where `name` is bound: list of (site, 'pre'|'post', value kind). `chain` = [(kind, name, decorated-as-class)]
    of the probed def. Sites are relative to the scope whose locals the decorator consults: classes decorated as a
    whole (and the classes inside them) are skipped, so for a class-decorated method the function around the root
    class is 'direct-fn' and the class defining the method is 'direct-cls'."""
    out = []
    names = [(k, n) for k, n, _ in chain]
    deco_from = next((i for i, (_, _, dc) in enumerate(chain) if dc), None)

    def site(depth):
        if depth == 0:
            return 'global'
        kind = chain[depth - 1][0]
        innermost = len(chain)
        if deco_from is None:
            direct = depth == innermost
        elif kind == 'cls':
            direct = depth == innermost
        else:
            direct = depth == deco_from                 # the function just outside the decorated root class
        return ('direct-' if direct else 'outer-') + kind

    def walk(sts, cur, seen_def):
        for st in sts:
            if st[0] in ('cls', 'alias') and st[1] == name:
                where = site(len(cur)) if cur == names[:len(cur)] else 'elsewhere'
                kind = 'class' if st[0] == 'cls' else ('alias-class' if st[2][0] == 'n' else 'alias-hint')
                out.append((where, 'post' if seen_def[0] else 'pre', kind))
            elif st[0] == 'def' and (fid is None or st[1] == fid):
                seen_def[0] = True
            elif st[0] == 'func':
                walk(st[3], cur + [('fn', st[1])], seen_def)
            elif st[0] == 'class':
                if st[1] == name:
                    out.append(('self-class', 'post', 'class'))
                walk(st[5], cur + [('cls', st[1])], seen_def)
    walk(stmts, [], [False])
    return out


def probe_context(stmts, tag):
    """names of the scopes running when the probe executes"""
    def find(sts, chain):
        for st in sts:
            if st[0] == 'probe' and st[1] == tag:
                return chain
            if st[0] == 'func':
                r = find(st[3], chain + [st[1]])
                if r is not None:
                    return r
            if st[0] == 'class':
                r = find(st[5], chain + [st[1]])
                if r is not None:
                    return r
        return None
    return find(stmts, [])


def term_has(t, kind) -> bool:
    if t[0] == kind:
        return True
    if t[0] == 'via':
        return term_has(t[1], kind)
    if t[0] == 'sub':
        return term_has(t[1], kind) or any(term_has(a, kind) for a in t[2])
    if t[0] == 'bor':
        return term_has(t[1], kind) or term_has(t[2], kind)
    return False


def cmp_vectors(actual, expected, free):
    """positions where the real verdict is not allowed by the expected one ('F' also allowed where the
    unresolvable leaf is not needed)"""
    bad = []
    for d, (va, ve, vf) in enumerate(zip(actual, expected, free)):
        for i, (a, e, f) in enumerate(zip(va, ve, vf)):
            if a == e or (f and a == 'F'):
                continue
            bad.append((d, i, a, e))
    return bad


def follows_impl_model(pr) -> bool:
    """the real verdict vector of a probe is the one of the hint the implementation model predicts"""
    return pr.get('impl') is not None and not cmp_vectors(pr['actual'], pr['impl'], pr['impl_free'])


def probe_fid(stmts, tag):
    for st in stmts:
        if st[0] == 'probe' and st[1] == tag:
            return st[2]
        if st[0] == 'func':
            r = probe_fid(st[3], tag)
            if r is not None:
                return r
        if st[0] == 'class':
            r = probe_fid(st[5], tag)
            if r is not None:
                return r
    return None


def crash_matches(real, model) -> bool:
    """the statement the model says raises is the one that raises, with the modelled exception family"""
    if real is None or model is None:
        return real is None and model is None
    ev = model['event']
    if ev is not None and ev[0] == 'decorate':
        # eval() failures inside the resolver are re-raised as the decoration-time forward-reference exception
        return 'BeartypeDecorHintForwardRefException' in real['mro']
    return model['kind'] in real['mro']


def describe(prog, variant) -> str:
    return finalize_src(render_program(prog['stmts'], variant), method_fids(prog['stmts']))


def evaluate(progs, models, reals, ex: Explore, stats: dict):
    """oracles over one batch; appends to ex.failures / ex.corr_diffs"""
    for i, (p, m, r) in enumerate(zip(progs, models, reals)):
        if 'worker_error' in r:
            ex.corr_diffs.append({'what': 'worker failed', 'program': describe(p, 'str'), 'error': r['worker_error'][-1500:]})
            continue
        stats['programs'] += 1
        stats['placements'][p['placement']] = stats['placements'].get(p['placement'], 0) + 1
        stats['shapes'][p['shape']] = stats['shapes'].get(p['shape'], 0) + 1
        first_vec = {}
        for v in VARIANTS:
            rv, mv = r['variants'][v], m[v]
            if not crash_matches(rv['crash'], mv['crash']):
                ex.corr_diffs.append({'what': 'program end differs', 'variant': v, 'program': describe(p, v),
                                      'real': rv['crash'], 'model': mv['crash'], 'stmts': p['stmts']})
            kind = 'ran' if rv['crash'] is None else ('decor-fwdref' if 'BeartypeDecorHintForwardRefException' in rv['crash']['mro']
                                                      else rv['crash']['exc'])
            stats['ends'][f'{v}:{kind}'] = stats['ends'].get(f'{v}:{kind}', 0) + 1
            if rv['crash'] is not None and v != 'eval' and 'NameError' in rv['crash']['mro']:
                # a string / postponed annotation must never make the DEFINITION fail with a NameError
                ex.failures.append(Failure(key=f'C07:definition-raises-NameError:{v}',
                                           what=f'variant {v}: the definition itself raises {rv["crash"]["exc"]}: {rv["crash"]["msg"]}',
                                           replay={'stmts': p['stmts'], 'variant': v, 'program': describe(p, v)}))
            prev_cache: set = set()
            ambiguous = False
            for tag in [t for t in mv['calls'] if t in rv['probes']] + [t for t in rv['probes'] if t not in mv['calls']]:
                pr = rv['probes'][tag]
                mc = mv['calls'].get(tag)
                if mc is not None:
                    # the model resolves every proxy at every call; the real check is lazy. They can only drift apart
                    # when, at one call, some proxy raises while another one is resolved for the first time (the real
                    # check may stop at the raising one): from there on this variant's run is not compared.
                    now = {tuple(c) for c in mc['cache']}
                    if now - prev_cache and term_has(mc['impl'], 'unres'):
                        ambiguous = True
                    prev_cache = now
                if ambiguous:
                    stats['skipped_lazy_ambiguous'] += 1
                    continue
                ex.evaluations += sum(1 for vec in pr['actual'] for a in vec if a != '-')
                for vec in pr['actual']:
                    for a in vec:
                        stats['outcomes'][a[0]] = stats['outcomes'].get(a[0], 0) + 1
                if mc is None:
                    ex.corr_diffs.append({'what': 'probe executed that the model never reaches', 'variant': v, 'tag': tag,
                                          'program': describe(p, v), 'stmts': p['stmts']})
                    continue
                odd = sorted({a for vec in pr['actual'] for a in vec if a.startswith('X:')})
                if odd:
                    ex.failures.append(Failure(
                        key=f'C07:foreign-exception:{odd[0][2:]}',
                        what=f'variant {v} probe {tag}: a check raised {odd} (neither a violation nor a beartype forward-reference exception)',
                        replay={'stmts': p['stmts'], 'variant': v, 'tag': tag, 'program': describe(p, v)}))
                    continue
                # ---- correspondence: the implementation model predicts the real vector and proxy cache
                if pr.get('impl') is None:
                    ex.corr_diffs.append({'what': 'implementation-model hint cannot be built', 'variant': v, 'tag': tag,
                                          'term': mc['impl'], 'error': pr.get('impl_err'), 'program': describe(p, v), 'stmts': p['stmts']})
                else:
                    bad = cmp_vectors(pr['actual'], pr['impl'], pr['impl_free'])
                    if bad:
                        ex.corr_diffs.append({'what': 'verdicts differ from the implementation model', 'variant': v, 'tag': tag,
                                              'first': bad[:4], 'model_hint': mc['impl'], 'program': describe(p, v), 'stmts': p['stmts']})
                    rc = sorted({tuple(c) for c in pr['cache']})
                    mcache = sorted({tuple(c) for c in mc['cache']})
                    # a string still inside the hint is re-evaluated by the violation raiser: `K[int]` then makes a
                    # new subscripted proxy (never memoized) that is resolved afresh and cached beside the first
                    refreshed = set(rc) - set(mcache)
                    fresh = {tuple(c) for c in mc['fresh']}
                    stats['cache_refreshed_subscripted'] += bool(refreshed) and refreshed <= fresh
                    if not refreshed <= fresh or \
                            (not refreshed and dict(rc) != {k: w for k, w in mcache if k in dict(rc)}):
                        ex.corr_diffs.append({'what': 'resolved-proxy cache differs from the model', 'variant': v, 'tag': tag,
                                              'real': rc, 'model': mcache, 'program': describe(p, v), 'stmts': p['stmts']})
                    else:
                        ex.traces_validated += 1
                        stats['cache_equal'] += rc == mcache
                        stats['cache_subset'] += rc != mcache
                # ---- the property: the real vector is the vector of the SPECIFIED hint
                if mc['spec'] == ['unres', []]:
                    # Python itself cannot evaluate the annotation here even with every name bound (an attribute that
                    # does not exist on the object the name denotes): no specified hint to compare with
                    stats['skipped_spec_undefined'] += 1
                    continue
                if pr.get('spec') is None:
                    ex.corr_diffs.append({'what': 'specified hint cannot be built', 'variant': v, 'tag': tag, 'term': mc['spec'],
                                          'error': pr.get('spec_err'), 'program': describe(p, v), 'stmts': p['stmts']})
                    continue
                bads = cmp_vectors(pr['actual'], pr['spec'], pr['spec_free'])
                if bads:
                    # the deviation is the one the implementation model predicts only if the real vector IS the
                    # vector of the implementation-model hint; otherwise (a change of the code may hit exactly the
                    # programs on which a known deviation exists) it is identified as an unpredicted failure
                    if mc['impl'] != mc['spec'] and follows_impl_model(pr):
                        key = simple_key(p, v, tag, mc['impl'], mc['spec'])
                    else:
                        key = f'C07:unpredicted:{p["placement"]}:{p["shape"]}'
                    d, oi, a, e = bads[0]
                    ex.failures.append(Failure(
                        key=key,
                        what=f'{p["placement"]} placement, variant {v}, probe {tag}: object #{oi} {objspecs_of(p["stmts"])[oi]} under draw '
                             f'{DRAWS[d]} gives {a}, the annotation written as evaluated objects gives {e} '
                             f'(checked hint {mc["impl"]}; specified {mc["spec"]})',
                        replay={'stmts': p['stmts'], 'variant': v, 'tag': tag, 'object': oi, 'draw': DRAWS[d], 'real': a, 'expected': e,
                                'impl': mc['impl'], 'spec': mc['spec'], 'program': describe(p, v)}))
                    stats['deviations'][key] = stats['deviations'].get(key, 0) + 1
                elif mc['impl'] != mc['spec']:
                    stats['invisible_deviations'] += 1
                # ---- the variants agree with each other
                sig = json.dumps(pr['actual'])
                if v != 'eval' or rv['crash'] is None:
                    if tag in first_vec and first_vec[tag][1] != sig and not bads and not first_vec[tag][2]:
                        ex.failures.append(Failure(
                            key=f'C07:variants-differ:{first_vec[tag][0]}/{v}',
                            what=f'probe {tag}: variants {first_vec[tag][0]} and {v} of the same program give different verdict vectors',
                            replay={'stmts': p['stmts'], 'variant': v, 'tag': tag, 'program': describe(p, v)}))
                    first_vec.setdefault(tag, (v, sig, bool(bads)))
                # distinct non-trivial cases
                if mc['impl'].__repr__().find('obj') >= 0:
                    acc = any(a == 'A' for vec in pr['actual'] for a in vec)
                    rej = any(a == 'R' for vec in pr['actual'] for a in vec)
                    if acc and rej:
                        stats['nontrivial'].add((p['placement'], p['shape'], v, json.dumps(mc['impl']), len(p['stmts'])))


# ---------------------------------------------------------------------------
# corpus: hand-written abstract programs that are always run
# ---------------------------------------------------------------------------
def corpus() -> list:
    out = []

    def prog(name, stmts, shape='corpus'):
        out.append({'stmts': stmts, 'placement': name, 'shape': shape})
    # DESIGN §4 C07 candidate: a lazily resolved reference to a PEP hint
    prog('corpus-lazy-pep-hint', [['def', 500, 'f', N('IntList'), True], ['probe', 'p1', 500],
                                  ['alias', 'IntList', S(N('list'), N('int'))], ['probe', 'p2', 500], ['probe', 'p3', 500]])
    prog('corpus-lazy-pep-hint-nested', [['def', 500, 'f', S(N('list'), N('IntList')), True],
                                         ['alias', 'IntList', S(N('list'), N('int'))], ['probe', 'p1', 500]])
    # self reference and mutual recursion at module level
    prog('corpus-mutual', [['class', 'A', 101, 901, False, [['def', 500, 'm', O(N('B'), L('none')), True]]],
                           ['class', 'B', 102, 902, False, [['def', 501, 'm', S(N('list'), N('A')), True]]],
                           ['probe', 'p1', 500], ['probe', 'p2', 501]])
    prog('corpus-mutual-called-early', [['class', 'A', 101, 901, False, [['def', 500, 'm', O(N('B'), L('none')), True]]],
                                        ['probe', 'p1', 500],
                                        ['class', 'B', 102, 902, False, [['def', 501, 'm', S(N('list'), N('A')), True]]],
                                        ['probe', 'p2', 500], ['probe', 'p3', 501]])
    prog('corpus-self', [['class', 'A', 101, 901, False, [['def', 500, 'm', S(N('Optional'), N('A')), True], ['probe', 'p1', 500]]],
                         ['probe', 'p2', 500]])
    prog('corpus-self-cdeco', [['class', 'A', 101, 901, True, [['def', 500, 'm', S(N('dict'), N('str'), N('A')), False]]],
                               ['probe', 'p1', 500]])
    # nested class names
    prog('corpus-nested-name-late', [['def', 500, 'f', S(N('list'), A(N('Out'), 'In')), True], ['probe', 'p1', 500],
                                     ['cls', 'Out', 101, None, [['In', 102]]], ['probe', 'p2', 500]])
    prog('corpus-nested-self', [['class', 'C', 101, 901, False, [
        ['class', 'D', 102, 902, False, [['def', 500, 'm', A(N('C'), 'D'), True]]]]], ['probe', 'p1', 500]])
    # a class decorated inside a function, then a second callable decorated in the same function: the class
    # attributes must not leak into the second forward scope (nor into the function's locals)
    prog('corpus-class-locals-leak', [['alias', 'T', N('str')], ['func', 'outer', 903, [
        ['class', 'C', 101, 901, True, [['alias', 'T', N('int')], ['def', 500, 'm', N('T'), False]]],
        ['def', 501, 'g', S(N('list'), N('T')), True], ['probe', 'p1', 501], ['probe', 'p2', 500]]], ['probe', 'p3', 501]])
    # scope order: closure local over global over builtin; class attribute over both
    prog('corpus-scope-order-closure', [['alias', 'bytes', N('str')], ['alias', 'T', N('str')], ['func', 'outer', 903, [
        ['alias', 'T', N('int')], ['def', 500, 'f', S(N('tuple'), N('T'), N('bytes')), True], ['probe', 'p1', 500]]],
        ['probe', 'p2', 500]])
    prog('corpus-scope-order-class', [['alias', 'T', N('str')], ['func', 'outer', 903, [
        ['alias', 'T', N('float')],
        ['class', 'C', 101, 901, False, [['alias', 'T', N('int')], ['def', 500, 'm', S(N('list'), N('T')), True]]],
        ['probe', 'p1', 500]]], ['probe', 'p2', 500]])
    prog('corpus-scope-order-class-cdeco', [['alias', 'T', N('str')], ['func', 'outer', 903, [
        ['alias', 'T', N('float')],
        ['class', 'C', 101, 901, True, [['alias', 'T', N('int')], ['def', 500, 'm', S(N('list'), N('T')), False]]],
        ['probe', 'p1', 500]]], ['probe', 'p2', 500]])
    # closure: define after decoration, call inside the frame and after it returned
    prog('corpus-closure-late', [['func', 'outer', 903, [['def', 500, 'f', S(N('list'), N('Later')), True], ['probe', 'p1', 500],
                                                           ['cls', 'Later', 101, None, []], ['probe', 'p2', 500]]], ['probe', 'p3', 500]])
    # unresolved then recovered, repeatedly
    prog('corpus-recover', [['def', 500, 'f', O(N('int'), N('Later')), True], ['probe', 'p1', 500], ['probe', 'p2', 500],
                            ['cls', 'Later', 101, None, []], ['probe', 'p3', 500], ['probe', 'p4', 500]])
    # REBINDING between two decorations (one scope, one name, the same annotation text): every def is specified by
    # what its annotation denotes when the def executes; the first callable keeps the first object for good
    def rebind(name, b1, b2, hint, wrap=None, fnames=('f', 'g')):
        body = [b1, ['def', 500, fnames[0], hint, True], ['probe', 'p1', 500], b2, ['def', 501, fnames[1], hint, True],
                ['probe', 'p2', 501], ['probe', 'p3', 500]]
        if wrap == 'fn':
            body = [['func', 'outer', 903, body], ['probe', 'p4', 501], ['probe', 'p5', 500]]
        elif wrap == 'cls':
            body = [['class', 'C', 103, 901, False, body], ['probe', 'p4', 501], ['probe', 'p5', 500]]
        prog(name, body, shape='corpus-rebind')
    c1, c2 = ['cls', 'K', 101, None, []], ['cls', 'K', 102, None, []]
    a1, a2 = ['alias', 'K', N('int')], ['alias', 'K', N('str')]
    rebind('corpus-rebind-class', c1, c2, N('K'))
    rebind('corpus-rebind-class-list', c1, c2, S(N('list'), N('K')))
    rebind('corpus-rebind-class-optional', c1, c2, S(N('Optional'), N('K')))
    rebind('corpus-rebind-class-or-none', c1, c2, O(N('K'), L('none')))
    rebind('corpus-rebind-alias', a1, a2, N('K'))
    rebind('corpus-rebind-alias-list', a1, a2, S(N('list'), N('K')))
    rebind('corpus-rebind-alias-hint', ['alias', 'K', S(N('list'), N('int'))], ['alias', 'K', S(N('list'), N('str'))], N('K'))
    rebind('corpus-rebind-alias-hint-dict', ['alias', 'K', S(N('list'), N('int'))], ['alias', 'K', O(N('int'), N('str'))],
           S(N('dict'), N('str'), N('K')))
    rebind('corpus-rebind-class-to-alias', c1, a2, S(N('list'), N('K')))
    rebind('corpus-rebind-alias-to-class', a1, c2, N('K'))
    rebind('corpus-rebind-holder', ['cls', 'K', 101, None, [['In', 111]]], ['cls', 'K', 102, None, [['In', 112]]],
           S(N('list'), A(N('K'), 'In')))
    rebind('corpus-rebind-generic', ['cls', 'K', 101, GENERIC_BASE, []], ['cls', 'K', 102, GENERIC_BASE, []],
           S(N('list'), S(N('K'), N('int'))))
    rebind('corpus-rebind-class-closure', c1, c2, N('K'), wrap='fn')
    rebind('corpus-rebind-class-list-closure', c1, c2, S(N('list'), N('K')), wrap='fn')
    rebind('corpus-rebind-alias-closure', a1, a2, S(N('list'), N('K')), wrap='fn')
    rebind('corpus-rebind-class-method', c1, c2, N('K'), wrap='cls', fnames=('m', 'm2'))
    rebind('corpus-rebind-alias-method', a1, a2, S(N('list'), N('K')), wrap='cls', fnames=('m', 'm2'))
    # a class decorated AS A WHOLE whose body rebinds a class attribute after a method naming it: the decorator runs at
    # the end of the body (forward scope = the final class dictionary), the evaluated annotation was fixed at the def.
    # Genuine deviation of the unchanged library (key C07:bound-instead-of-bound:bare:Lc+Vc, see PENDING_KNOWN;
    # Lean witness C07_rebound_class_decorated_counterexample)
    prog('corpus-rebind-alias-cdeco', [['class', 'C', 103, 901, True, [a1, ['def', 500, 'm', N('K'), False], a2,
                                                                       ['def', 501, 'm2', N('K'), False]]],
                                       ['probe', 'p1', 500], ['probe', 'p2', 501]], shape='corpus-rebind')
    prog('corpus-rebind-class-list-cdeco', [['class', 'C', 103, 901, True, [c1, ['def', 500, 'm', S(N('list'), N('K')), False], c2]],
                                            ['probe', 'p1', 500]], shape='corpus-rebind')
    # three decorations, the name rebound back to the first object before the third
    prog('corpus-rebind-back', [c1, ['alias', 'Old', N('K')], ['def', 500, 'f', S(N('list'), N('K')), True], c2,
                                ['def', 501, 'g', S(N('list'), N('K')), True], ['probe', 'p1', 501], ['alias', 'K', N('Old')],
                                ['def', 502, 'h', S(N('list'), N('K')), True], ['probe', 'p2', 502], ['probe', 'p3', 500],
                                ['probe', 'p4', 501]], shape='corpus-rebind')
    return out


class _Always:
    """stands in for the PRNG in the systematic enumeration: every optional probe is generated"""

    def random(self):
        return 0.0


def systematic(full: bool) -> list:
    """every placement x every scope of its chain x (bound before / after the decoration) + never bound, for one
    bare class leaf; late aliases of a PEP hint and late dotted names at the module / outermost / innermost scope
    (all scopes when `full`); a SUBSCRIPTED user generic (`K[int]`, `list[K[int]]`, `K[int] | None`,
    `Optional[K[int]]` in rotation) never bound / bound after the decoration in every scope of the chain / before
    it in the innermost scope (every scope when `full`), and a late alias of a subscriptable builtin (`K = list`) at
    the module / innermost scope. Probes after the def, after every late binding, after every scope ends, at the end."""
    out = []
    for placement, chain in PLACEMENTS.items():
        nsc = len(chain) + 1
        cases = [('K', None, 'never', 'cls')]
        for site in range(nsc):
            for time in ('pre', 'post'):
                cases.append(('K', site, time, 'cls'))
            if full or site in (0, 1, nsc - 1):
                cases.append(('K', site, 'post', 'alias_seq'))
                cases.append(('K', site, 'post', 'holder'))
        cases.append(('K', None, 'never', 'generic'))
        for site in range(nsc):
            cases.append(('K', site, 'post', 'generic'))
            if full or site == nsc - 1:
                cases.append(('K', site, 'pre', 'generic'))
            if full or site in (0, nsc - 1):
                cases.append(('K', site, 'post', 'alias_gen'))
        for ci, (name, site, time, kind) in enumerate(cases):
            b = Builder(_Always(), placement)
            binds = [] if time == 'never' else [(site, time, kind, False)]
            leaf = leaf_expr(name, kind)
            if kind in SUBSCRIPTED_KINDS:
                hint = [leaf, S(N('list'), leaf), O(leaf, L('none')), S(N('Optional'), leaf)][(ci + (site or 0)) % 4]
            else:
                hint = leaf if kind != 'cls' or site is None or site % 2 == 0 else S(N('list'), leaf)
            stmts = b.build(hint, [{'name': name, 'binds': binds, 'probe_after': True}], probe_after_def=True, end_probes=1)
            out.append({'stmts': stmts, 'placement': placement, 'shape': f'systematic-{kind}-{time}'})
    return out


# ---------------------------------------------------------------------------
# exploration
# ---------------------------------------------------------------------------
RULE = ('generated programs: one @beartype-checked callable at module level / in (nested) class bodies (method- or class-level '
        'decoration) / in closures (depth 1-2, classes in functions), annotation = 17 one-leaf and 5 two-leaf hint shapes over user '
        'classes, nested-class names, aliases of classes / PEP hints / unions, helper-module attributes, self references, and '
        'SUBSCRIPTED user names (K[int] with K a user generic class or an alias of a subscriptable builtin); every leaf '
        'bound before the decoration, after it, or never, in module / enclosing-function / class scope, with shadowing bindings; '
        'REBINDING programs: one name bound, a callable decorated, the name rebound in the same scope (module / closure / class '
        'body; class redefined, alias reassigned, class <-> alias), a second (third) callable decorated with the same annotation '
        'text, every callable probed after every step - each def specified by what its annotation denotes when it executes; 5 '
        'variants (evaluated, whole string, that string under from __future__ import annotations, PEP 563 proper, strings at the '
        'names); probes inside the defining '
        'frame, after it returned, after each late definition, at module end; each probe = verdict vector over 19 base objects + 13 '
        'per class (instance, subclass instance, same-named decoy, containers) under forced draws 0 and 1. '
        'non-trivial = (placement, shape, variant, checked hint) whose vector holds an accept AND a reject')


def new_stats() -> dict:
    return {'programs': 0, 'placements': {}, 'shapes': {}, 'ends': {}, 'outcomes': {}, 'deviations': {}, 'invisible_deviations': 0,
            'cache_equal': 0, 'cache_subset': 0, 'cache_refreshed_subscripted': 0, 'skipped_lazy_ambiguous': 0, 'skipped_spec_undefined': 0, 'nontrivial': set()}


def explore(ck: Check, n: int, seed: int, with_corpus: bool = True, bear_every: int = 0, full: bool = False) -> Explore:
    rng = random.Random(seed)
    ex = Explore(rule=RULE)
    stats = new_stats()
    import time
    t0 = time.time()
    progs = (corpus() + systematic(full) if with_corpus else []) + [gen_program(rng) for _ in range(n)]
    # rebinding programs from a PRNG of their own (the stream of `gen_program` stays what it was)
    rng_rebind = random.Random(seed * 7919 + 17)
    progs += [gen_rebind(rng_rebind) for _ in range(max(6, n // 8))]
    models = run_model(progs)
    t1 = time.time()
    reals = run_real(progs, models, bear_every=bear_every)
    t2 = time.time()
    evaluate(progs, models, reals, ex, stats)
    bear_tie(progs, models, reals, ex, stats)
    source_tie(progs, ex, stats)
    printer_tie(progs, ex, stats)
    stats['wall_model_s'], stats['wall_real_s'], stats['wall_oracles_s'] = round(t1 - t0, 1), round(t2 - t1, 1), round(time.time() - t2, 1)
    if ck is not None:
        ck.log(f'[C07] explore: {len(progs)} programs; model {t1 - t0:.0f}s, real {t2 - t1:.0f}s, oracles+bear {time.time() - t2:.0f}s; '
               f'{len(ex.failures)} raw failures, {len(ex.corr_diffs)} correspondence diffs')
    ex.distinct_nontrivial = len(stats.pop('nontrivial'))
    ex.extra.update({k: v for k, v in stats.items()})
    ex.samples = [{'placement': p['placement'], 'shape': p['shape'], 'program': describe(p, 'str')} for p in progs[-3:]]
    return ex


def bear_tie(progs, models, reals, ex: Explore, stats: dict):
    """second derivation of the expected vectors: the Bear model's `chk` (Lean) on the hint the C07 model predicts"""
    from ..bear.corr import model_run
    cases, where = [], []
    for i, (p, r) in enumerate(zip(progs, reals)):
        if 'worker_error' in r:
            continue
        for v in VARIANTS:
            for tag, pr in r['variants'][v]['probes'].items():
                b = pr.get('bear')
                if not b:
                    continue
                for hi, hm in enumerate(b['hints']):
                    for oi, om in enumerate(b['objs']):
                        if om is not None:
                            cases.append((b['world'], hm, om))
                            where.append((i, v, tag, hi, oi))
    stats['bear_cases'] = len(cases)
    if not cases:
        return
    res = bear_model_run(cases)
    table: dict = {}
    for (i, v, tag, hi, oi), rr in zip(where, res):
        table.setdefault((i, v, tag), {}).setdefault(oi, {})[hi] = rr
    ndiff = 0
    for (i, v, tag), per_obj in table.items():
        pr = reals[i]['variants'][v]['probes'][tag]
        if pr.get('impl') is None:
            continue
        for oi, by_hint in per_obj.items():
            for d in range(len(DRAWS)):
                vals = [by_hint[h][d] if by_hint.get(h) is not None else None for h in sorted(by_hint)]
                if any(x is None for x in vals):
                    continue
                exp = ('A' if vals[0] else 'R') if len(set(vals)) == 1 else 'F'
                if pr['impl'][d][oi] != exp:
                    ndiff += 1
                    if ndiff <= 3:
                        ex.corr_diffs.append({'what': 'Bear model chk differs from the reference callable on the predicted hint',
                                              'variant': v, 'tag': tag, 'object': oi, 'draw': DRAWS[d], 'bear': exp,
                                              'reference': pr['impl'][d][oi], 'program': describe(progs[i], v)})
    stats['bear_diffs'] = ndiff


def bear_model_run(cases: list) -> list:
    """[(world, hint model, object model)] -> [[chk per draw] | None]"""
    lines = []
    cache: dict = {}
    for world, hm, om in cases:
        k = id(world)
        if k not in cache:
            cache[k] = sexp(world)
        lines.append(f'(run {cache[k]} true {sexp(DRAWS)} {sexp(hm)} {sexp(om)})')
    out = []
    for line in lean_driver(lines, 'Bear', exe='beardriver'):
        v = parse_sexp(line)
        out.append(None if v[0] != 'ok' else [c == 'true' for c, _ in v[1][2:]])
    return out


def source_tie(progs, ex: Explore, stats: dict):
    """the printer of the source language against CPython's parser: ast.parse(render(e)) must be the tree of e"""
    import ast

    def tree(node):
        if isinstance(node, ast.Name):
            return N(node.id)
        if isinstance(node, ast.Attribute):
            return A(tree(node.value), node.attr)
        if isinstance(node, ast.Subscript):
            sl = node.slice
            return ['s', tree(node.value), [tree(x) for x in (sl.elts if isinstance(sl, ast.Tuple) else [sl])]]
        if isinstance(node, ast.BinOp) and isinstance(node.op, ast.BitOr):
            return O(tree(node.left), tree(node.right))
        if isinstance(node, ast.Constant):
            c = node.value
            if c is None:
                return L('none')
            if c is Ellipsis:
                return L('ellipsis')
            if isinstance(c, bool):
                return L(['b', 'true' if c else 'false'])
            if isinstance(c, int):
                return L(['i', c])
            return ['strlit', c]
        raise ValueError(ast.dump(node))

    def same(e, t):
        if e[0] == 'q':
            return t[0] == 'strlit' and same(e[1], tree(ast.parse(t[1], mode='eval').body))
        if e[0] == 'l' and not isinstance(e[1], str) and e[1][0] == 'str':
            return t == ['strlit', e[1][1]]
        if e[0] != t[0]:
            return False
        if e[0] == 'n':
            return e[1] == t[1]
        if e[0] == 'a':
            return e[2] == t[2] and same(e[1], t[1])
        if e[0] == 's':
            return same(e[1], t[1]) and len(e[2]) == len(t[2]) and all(same(x, y) for x, y in zip(e[2], t[2]))
        if e[0] == 'o':
            return same(e[1], t[1]) and same(e[2], t[2])
        return e == t
    n = 0
    for p in progs:
        for st in all_defs(p['stmts']):
            for v in VARIANTS:
                e = variant_expr(st[3], v)
                n += 1
                try:
                    ok = same(e, tree(ast.parse(render(e), mode='eval').body))
                except Exception as exn:                    # noqa: BLE001
                    ok = False
                    e = [e, repr(exn)]
                if not ok:
                    ex.corr_diffs.append({'what': 'printed annotation does not parse back to the expression', 'expr': e,
                                          'text': render(e) if isinstance(e[0], str) else None})
    stats['printed_annotations_parsed_back'] = n


def py_tokens(text: str) -> list:
    """CPython's tokenizer on an annotation text, in the vocabulary of the Lean printer"""
    import ast
    import io
    import tokenize
    ops = {'.': 'dot', '[': 'lbr', ']': 'rbr', ',': 'comma', '|': 'bar', '(': 'lpar', ')': 'rpar'}
    out = []
    for tok in tokenize.generate_tokens(io.StringIO(text).readline):
        if tok.type in (tokenize.NEWLINE, tokenize.NL, tokenize.ENDMARKER, tokenize.INDENT, tokenize.DEDENT):
            continue
        if tok.type == tokenize.NAME:
            out.append({'None': ['lit', 'none'], 'True': ['lit', ['b', 'true']], 'False': ['lit', ['b', 'false']]}.get(
                tok.string, ['id', tok.string]))
        elif tok.type == tokenize.NUMBER:
            out.append(['lit', ['i', tok.string]])
        elif tok.type == tokenize.STRING:
            out.append(['S', py_tokens(ast.literal_eval(tok.string))])
        elif tok.type == tokenize.OP and tok.string == '...':
            out.append(['lit', 'ellipsis'])
        elif tok.type == tokenize.OP and tok.string in ops:
            out.append(ops[tok.string])
        else:
            out.append(['?', tok.string])
    return out


def lean_tokens(ts) -> list:
    out = []
    for t in ts:
        if isinstance(t, str):
            out.append(t)
        elif t[0] == 'str':
            out.append(['S', lean_tokens(t[1])])
        elif t[0] == 'lit' and isinstance(t[1], list) and t[1][0] == 'str':
            out.append(['S', py_tokens(t[1][1])])
        else:
            out.append(t)
    return out


def printer_tie(progs, ex: Explore, stats: dict):
    """the Lean printer `showE` against CPython's tokenizer on the text the programs really contain; the driver also
    reports that the model's parser reads its own output back (C07_show_parse, re-checked on concrete inputs)"""
    seen: dict = {}
    for p in progs:
        for st in all_defs(p['stmts']):
            for v in VARIANTS:
                e = variant_expr(st[3], v)
                seen.setdefault(json.dumps(e), e)
    exprs = list(seen.values())
    res = lean_driver([sexp(['c07', 'show', expr_sx(e)]) for e in exprs], 'C07')
    for e, line in zip(exprs, res):
        r = parse_sexp(line)
        if r[0] != 'ok':
            ex.corr_diffs.append({'what': 'model printer refuses an annotation', 'expr': e})
            continue
        toks, back = r[1]
        if lean_tokens(toks) != py_tokens(render(e)) or back != 'roundtrip':
            ex.corr_diffs.append({'what': 'model printer and CPython tokenizer disagree on an annotation', 'expr': e, 'text': render(e),
                                  'model_tokens': lean_tokens(toks), 'python_tokens': py_tokens(render(e)), 'model_parser': back})
    stats['annotations_tokenised_like_the_model'] = len(exprs)


def all_defs(stmts):
    for st in stmts:
        if st[0] == 'def':
            yield st
        elif st[0] == 'func':
            yield from all_defs(st[3])
        elif st[0] == 'class':
            yield from all_defs(st[5])


# ---------------------------------------------------------------------------
# canonical keys and shrinking
# ---------------------------------------------------------------------------
WHERE_CLASS = {'global/pre': 'Vg', 'direct-fn/pre': 'Vf', 'direct-cls/pre': 'Vc', 'global/post': 'G',
               'direct-fn/post': 'Lf', 'direct-cls/post': 'Lc', 'outer-fn/pre': 'Hf', 'outer-fn/post': 'Hf',
               'outer-cls/pre': 'Hc', 'outer-cls/post': 'Hc', 'self-class/post': 'S'}


def where_class(tokens: set) -> str:
    """Vg/Vf/Vc = bound BEFORE the decoration at module level / in the directly enclosing function / in the class
    defining the method (the scopes the forward scope is documented to consult); G = bound at module level after
    the decoration; Lf/Lc = bound after it in the directly enclosing function / class body; Hf/Hc = bound in a
    farther enclosing function / class; S = the class being defined itself; E = in a scope that does not enclose
    the def; U = never bound"""
    return '+'.join(sorted({WHERE_CLASS.get(t, 'E') for t in tokens})) or 'U'


def signature(prog, variant, tag, impl, spec):
    fid = probe_fid(prog['stmts'], tag)
    chain, d = scope_chain(prog['stmts'], fid)
    dv = leaves_diff(impl, spec)
    if dv is None:
        return None
    path, a, b = dv
    e = expr_at(variant_expr(d[3], variant), path)
    # a subscripted user name (`K[int]`) whose proxy stands for the whole subscription: the leaf is the subscription
    subbed = e[0] == 's' and is_chain(e[1]) and user_root(e[1]) and not (a[0] == 'sub' and b[0] == 'sub')
    head = e[1] if subbed else e
    name = chain_root(head) if is_chain(head) else '?'
    dotted = 'dotted' if head[0] == 'a' else 'bare'
    binds = binds_of(prog['stmts'], name, chain, fid)
    aa = a[0] if a[0] in ('unres', 'fake', 'via') else ('unsubscripted' if subbed and b[0] == 'sub' else 'bound')
    bb = b[0] if b[0] in ('unres', 'fake', 'via') else 'bound'
    return (aa, bb, dotted, where_class({f'{w}/{t}' for w, t, _ in binds}), e)


def key_of(sig) -> str:
    return f'C07:{sig[0]}-instead-of-{sig[1]}:{sig[2]}:{sig[3]}'


def simple_key(prog, variant, tag, impl, spec) -> str:
    return key_of(signature(prog, variant, tag, impl, spec))


def removable_positions(stmts, keep_tag, keep_fid, prefix=()):
    """index paths of statements that may be dropped (not the probed def, not a scope containing it)"""
    out = []
    for i, st in enumerate(stmts):
        here = prefix + (i,)
        if st[0] in ('cls', 'alias'):
            out.append(here)
        elif st[0] == 'probe' and st[1] != keep_tag:
            out.append(here)
        elif st[0] == 'def' and st[1] != keep_fid:
            out.append(here)
        elif st[0] == 'func':
            out += removable_positions(st[3], keep_tag, keep_fid, here + (3,))
        elif st[0] == 'class':
            out += removable_positions(st[5], keep_tag, keep_fid, here + (5,))
    return out


def drop_at(stmts, pos):
    stmts = copy.deepcopy(stmts)
    cur = stmts
    for p in pos[:-1]:
        cur = cur[p]
    del cur[pos[-1]]
    return stmts


def set_hint(stmts, fid, hint):
    stmts = copy.deepcopy(stmts)

    def walk(sts):
        for st in sts:
            if st[0] == 'def' and st[1] == fid:
                st[3] = hint
            elif st[0] == 'func':
                walk(st[3])
            elif st[0] == 'class':
                walk(st[5])
    walk(stmts)
    return stmts


def still_refers(stmts, fid) -> bool:
    """dropping a def must not orphan a probe"""
    fids = {st[1] for st in all_defs(stmts)}

    def probes(sts):
        for st in sts:
            if st[0] == 'probe':
                yield st[2]
            elif st[0] == 'func':
                yield from probes(st[3])
            elif st[0] == 'class':
                yield from probes(st[5])
    return all(f in fids for f in probes(stmts))


def shrink_predicted(jobs: list) -> list:
    """jobs = [(prog, variant, tag, impl, spec)] whose model outputs differ between implementation and specification;
    greedy statement / hint reduction keeping the same kind of deviation, decided by the MODEL (all jobs in lock
    step, one driver call per round; a round tries every single removal plus all of the last round's individually
    successful removals at once)"""
    cur = [[prog, signature(prog, variant, tag, impl, spec), []] for prog, variant, tag, impl, spec in jobs]
    for _ in range(8):
        cands, owner, what = [], [], []
        for j, (prog, sig, combo) in enumerate(cur):
            variant, tag = jobs[j][1], jobs[j][2]
            fid = probe_fid(prog['stmts'], tag)
            _, d = scope_chain(prog['stmts'], fid)
            alts = []
            if sig is not None and d[3] != sig[4]:
                alts.append(('hint', set_hint(prog['stmts'], fid, sig[4])))
            poss = removable_positions(prog['stmts'], tag, fid)
            if len(combo) > 1:
                st = prog['stmts']
                for pos in sorted(combo, reverse=True):          # later positions first: earlier ones stay valid
                    st = drop_at(st, pos)
                alts.append(('combo', st))
            alts += [(pos, drop_at(prog['stmts'], pos)) for pos in poss]
            for w, st in alts:
                if still_refers(st, fid):
                    cands.append({**prog, 'stmts': st})
                    owner.append(j)
                    what.append(w)
        if not cands:
            break
        res = run_model(cands)
        passed: dict = {}
        for c, j, w, r in zip(cands, owner, what, res):
            variant, tag = jobs[j][1], jobs[j][2]
            call = r[variant]['calls'].get(tag)
            if call is None or call['impl'] == call['spec']:
                continue
            sig = signature(c, variant, tag, call['impl'], call['spec'])
            if sig is not None and sig[:3] == cur[j][1][:3]:
                passed.setdefault(j, []).append((w, c, sig))
        if not passed:
            break
        for j, lst in passed.items():
            pick = next((x for x in lst if x[0] == 'combo'), None) or next((x for x in lst if x[0] == 'hint'), None) or lst[0]
            singles = [x[0] for x in lst if isinstance(x[0], tuple)]
            # positions shift after a removal: the combination is only reused when nothing was applied this round
            if pick[0] in ('combo', 'hint') or len(singles) < 2:
                cur[j] = [pick[1], pick[2], []]
            else:
                cur[j] = [cur[j][0], cur[j][1], singles]
    return [c[0] for c in cur]


def check_one(prog, variant, tag, model=None, real=None):
    """(property broken on this probe?, detail) — the oracle of `evaluate` for a single probe"""
    model = model or run_model([prog])[0]
    real = real or run_real([prog], [model])[0]
    if 'worker_error' in real:
        return None, {'worker_error': real['worker_error']}
    pr = real['variants'][variant]['probes'].get(tag)
    mc = model[variant]['calls'].get(tag)
    if pr is None or mc is None or pr.get('spec') is None:
        return None, {'real_end': real['variants'][variant]['crash'], 'model_end': model[variant]['crash']}
    bads = cmp_vectors(pr['actual'], pr['spec'], pr['spec_free'])
    return bool(bads), {'bads': bads, 'impl': mc['impl'], 'spec': mc['spec'], 'actual': pr['actual'], 'expected': pr['spec'],
                        'impl_model_vector': pr.get('impl'),
                        'predicted': mc['impl'] != mc['spec'] and follows_impl_model(pr)}


def unpredicted_key(prog, variant, tag, bad) -> str:
    """identity of a failure the implementation model does not predict: placement chain, decoration kind, and for
    every user name of the annotation how it is written and where/when it is bound, plus real->expected"""
    fid = probe_fid(prog['stmts'], tag)
    chain, d = scope_chain(prog['stmts'], fid)
    e = d[3]
    leaves = []

    def walk(x, subbed=''):
        if is_chain(x):
            n = chain_root(x)
            if n not in BUILTINS and (n == 'hm' or n not in PRELUDE):
                binds = binds_of(prog['stmts'], n, chain, fid)
                sites = [w for w, _, _ in binds]
                # the name is bound more than once in one scope (rebound between / after the decorations)
                rebound = '~rebound' if any(sites.count(w) > 1 for w in sites) else ''
                leaves.append(('dotted' if x[0] == 'a' else 'bare') + subbed + '@' +
                              where_class({f'{w}/{t}' for w, t, _ in binds}) + rebound)
        elif x[0] == 'a':
            walk(x[1])
        elif x[0] == 's':
            walk(x[1], '[]' if is_chain(x[1]) else '')         # `K[int]`: the user name itself is subscripted
            for y in x[2]:
                walk(y)
        elif x[0] == 'o':
            walk(x[1])
            walk(x[2])
        elif x[0] == 'q':
            walk(x[1])
    walk(e)
    place = '/'.join(k for k, _, _ in chain) or 'module'
    deco = 'class-decorated' if any(dc for _, _, dc in chain) else 'def-decorated'
    nested = 'plain' if is_chain(e) or (e[0] == 's' and is_chain(e[1]) and user_root(e[1])) else 'nested'
    return f'C07:unpredicted:{place}:{deco}:{nested}:{"+".join(sorted(leaves)) or "no-user-name"}:{bad[2]}-instead-of-{bad[3]}'


def shrink_unpredicted(prog, variant, tag, rounds: int = 4):
    """greedy statement / hint reduction with REAL runs (every single removal of a round in parallel)"""
    cur = prog
    for _ in range(rounds):
        fid = probe_fid(cur['stmts'], tag)
        _, d = scope_chain(cur['stmts'], fid)
        alts = [drop_at(cur['stmts'], pos) for pos in removable_positions(cur['stmts'], tag, fid)]
        subs = [x for x in sub_exprs(d[3]) if x[0] == 's' and is_chain(x[1]) and user_root(x[1]) and x != d[3]]
        leaves = [x for x in sub_exprs(d[3]) if is_chain(x) and x != d[3] and not any(x == y[1] for y in subs)]
        alts = [set_hint(cur['stmts'], fid, x) for x in (subs + leaves)[:3]] + alts
        cands = [{**cur, 'stmts': st} for st in alts if still_refers(st, fid)][:24]
        if not cands:
            break
        models = run_model(cands)
        reals = run_real(cands, models)
        nxt = None
        for c, m, r in zip(cands, models, reals):
            broken, det = check_one(c, variant, tag, m, r)
            if broken and not det['predicted']:
                nxt = c
                break
        if nxt is None:
            break
        cur = nxt
    return cur


def user_root(e) -> bool:
    n = chain_root(e)
    return n not in BUILTINS and (n == 'hm' or n not in PRELUDE)


def sub_exprs(e):
    yield e
    if e[0] in ('a', 'q'):
        yield from sub_exprs(e[1])
    elif e[0] == 's':
        yield from sub_exprs(e[1])
        for x in e[2]:
            yield from sub_exprs(x)
    elif e[0] == 'o':
        yield from sub_exprs(e[1])
        yield from sub_exprs(e[2])


def canonicalise(ex: Explore):
    """shrink every distinct failure; the key of a failure is the key of its shrunk program"""
    by_key: dict = {}
    for f in ex.failures:
        by_key.setdefault(f.key, f)
    pred = [f for f in by_key.values() if '-instead-of-' in f.key and 'impl' in f.replay]
    jobs = [({'stmts': f.replay['stmts'], 'placement': 'shrunk', 'shape': 'shrunk'}, f.replay['variant'], f.replay['tag'],
             f.replay['impl'], f.replay['spec']) for f in pred]
    shrunk = shrink_predicted(jobs) if jobs else []
    models = run_model(shrunk) if shrunk else []
    reals = run_real(shrunk, models) if shrunk else []
    out: dict = {}
    for f, sp, m, r, (_, variant, tag, _i, _s) in zip(pred, shrunk, models, reals, jobs):
        broken, det = check_one(sp, variant, tag, m, r)
        if broken and det['predicted']:
            mc = m[variant]['calls'][tag]
            key = simple_key(sp, variant, tag, mc['impl'], mc['spec'])
            d, oi, a, e = det['bads'][0]
            nf = Failure(key=key,
                         what=f'variant {variant}, probe {tag} of the shrunk program: object #{oi} {objspecs_of(sp["stmts"])[oi]} under draw '
                              f'{DRAWS[d]} gives {a}, the annotation written as evaluated objects gives {e} '
                              f'(checked hint {mc["impl"]}; specified {mc["spec"]})',
                         replay={'stmts': sp['stmts'], 'variant': variant, 'tag': tag, 'object': oi, 'draw': DRAWS[d], 'real': a,
                                 'expected': e, 'program': describe(sp, variant), 'unshrunk_program': f.replay['program']})
            out.setdefault(key, nf)
        else:
            out.setdefault(f.key, f)
    allun = [f for f in by_key.values() if f.key.startswith('C07:unpredicted:')]

    def coarse(f):
        chain, _ = scope_chain(f.replay['stmts'], probe_fid(f.replay['stmts'], f.replay['tag']))
        return (any(k == 'fn' for k, _, _ in chain), f.replay.get('real'), f.replay.get('expected'))
    # the (at most 4) failures shrunk with real runs: one per (closure or not, real verdict, expected verdict) first
    first_of: dict = {}
    for f in allun:
        first_of.setdefault(coarse(f), f)
    unpred = (list(first_of.values()) + [f for f in allun if f not in first_of.values()])[:4]
    for f in unpred:
        variant, tag = f.replay['variant'], f.replay['tag']
        sp = shrink_unpredicted({'stmts': f.replay['stmts'], 'placement': 'shrunk', 'shape': 'shrunk'}, variant, tag)
        broken, det = check_one(sp, variant, tag)
        if broken:
            d, oi, a, e = det['bads'][0]
            key = unpredicted_key(sp, variant, tag, det['bads'][0])
            out.setdefault(key, Failure(
                key=key,
                what=f'variant {variant}, probe {tag} of the shrunk program: object #{oi} {objspecs_of(sp["stmts"])[oi]} under draw '
                     f'{DRAWS[d]} gives {a}, the annotation written as evaluated objects ({det["spec"]}) gives {e}; the '
                     f'implementation model predicts a check against {det["impl"]}, which does not give the real verdicts '
                     f'either (behaviour not covered by the model: correspondence broken too)',
                replay={'stmts': sp['stmts'], 'variant': variant, 'tag': tag, 'object': oi, 'draw': DRAWS[d], 'real': a, 'expected': e,
                        'program': describe(sp, variant), 'unshrunk_program': f.replay['program']}))
        else:
            out.setdefault(f.key, f)
    rest = [f for f in by_key.values() if f not in pred and f not in unpred]
    # one behaviour the model does not cover shows up under many (placement, shape) pairs: the shrunk ones identify
    # it; of the remaining raw ones only a few are kept
    for f in [f for f in rest if not f.key.startswith('C07:unpredicted:')] + \
            [f for f in rest if f.key.startswith('C07:unpredicted:')][:(0 if unpred else 2)]:
        out.setdefault(f.key, f)
    ex.failures = list(out.values())


# Genuine defects of the UNCHANGED library that the subscripted-name programs re-find (reported to the lead together
# with the known_findings.json entries), passed over here only until they are listed there; then empty this set.
#   `@beartype def f(x: 'K[int]')` then `K = list`: the subscripted proxy drops its arguments, `f(['a'])` is accepted
#   while the evaluated `K[int]` (= list[int]) rejects it (Lean: C07_late_subscripted_counterexample);
#   G / Lf / Lc = K bound after the decoration at module level / in the directly enclosing function / class body
#   `class C: @beartype def m(self, x: Optional['K[int]'])` (or `'K[int]'` under PEP 563), `C().m(3)`, `K = list`,
#   `C().m([1])`: _BeartypeCallHintPepRaiseDesynchronizationException — the wrapper checks the name-based fake the first
#   call cached, the violation raiser re-evaluates the string, `K[int]` makes a NEW subscripted proxy, resolved to `list`
#   `@beartype class C: K = int; def m(self, x: 'K'): ...; K = str` (class decorated as a whole, attribute rebound in the
#   body after the method): `C().m(1)` is REJECTED and `C().m('a')` accepted, the evaluated annotation `K` of the same
#   method (fixed when the def executed: int) does the opposite — the decorator resolves the string at the END of the
#   class body against the final class dictionary (Lean: C07_rebound_class_decorated_counterexample);
#   Lc+Vc = the name is bound in the class body before AND after the method
PENDING_KNOWN: set = set()        # (keys found while extending the generator are listed in known_findings.json)


def pass_over_pending(ck, ex: Explore):
    from ..common import load_known
    listed = {k['key'] for k in load_known() if k['property'] == 'C07'}
    hit = sorted({f.key for f in ex.failures if f.key in PENDING_KNOWN - listed})
    for key in hit:
        f = next(f for f in ex.failures if f.key == key)
        if ck is not None:
            ck.log(f'[C07] PENDING-KNOWN-FINDING (genuine defect reported to the lead, not yet in known_findings.json; '
                   f'passed over) [key={key}] {f.what}')
    ex.failures = [f for f in ex.failures if f.key not in hit]
    ex.extra['pending_known_findings_passed_over'] = hit


def replay(data: dict) -> int:
    prog = {'stmts': data['stmts'], 'placement': 'replay', 'shape': 'replay'}
    variant, tag = data.get('variant', 'str'), data.get('tag')
    print(describe(prog, variant))
    model = run_model([prog])[0]
    real = run_real([prog], [model])[0]
    if 'worker_error' in real:
        print('worker failed:', real['worker_error'])
        return 2
    print('beartype under test:', real.get('beartype_file'))
    rv = real['variants'][variant]
    if rv['crash']:
        print(f'variant {variant}: module execution ends with {rv["crash"]["exc"]} at line {rv["crash"]["line"]}: {rv["crash"]["msg"][:200]}')
        if data.get('key', '').startswith('C07:definition-raises'):
            return 1
    if tag is None:
        return 0
    broken, det = check_one(prog, variant, tag, model, real)
    if broken is None:
        print('probe not reached:', det)
        return 0
    objs = objspecs_of(prog['stmts'])
    print('verdicts: A = accepted, R = BeartypeCallHintViolation, F = beartype forward-reference exception, X:<cls> = other exception')
    print(f'probe {tag}, variant {variant}: hint checked by the implementation (model): {det["impl"]}')
    print(f'                                 hint the annotation denotes (specification): {det["spec"]}')
    for d, oi, a, e in det['bads'][:8]:
        print(f'  object #{oi} {objs[oi]} draw {DRAWS[d]}: real {a}   expected {e}')
    odd = sorted({a for vec in det['actual'] for a in vec if a.startswith('X:')})
    if odd:
        print('  foreign exceptions:', odd)
        return 1
    if not broken:
        print('replay: the real verdicts equal those of the evaluated annotation (not reproduced)')
        return 0
    return 1


def main(ck: Check) -> int:
    quick = ck.tier == 'quick'
    proof = ck.prove(MODULE, PROP_FILE)
    ex = explore(ck, n=110 if quick else 1600, seed=ck.seed, bear_every=6 if quick else 8, full=not quick)
    canonicalise(ex)
    pass_over_pending(ck, ex)
    ck.decide(proof, ex, deep_search=lambda: deep(ck))
    ck.evidence(proof, ex,
                level_note='PARTIAL: the theorems cover the resolution LOGIC of the model (scope layering, proxy state machine, '
                           'module-level histories, printer/parser round trip); partial theorems: C07_late_partial (module level, up '
                           'to the through-a-proxy marker), C07_scope_python_nested_partial (name not bound in a farther enclosing '
                           'function), C07_unresolved_raises_then_recovers_partial (frameless proxy or running parent) - each with a '
                           'decided _counterexample that is also a known finding; late SUBSCRIPTED names: C07_late_subscripted[_local] '
                           '(same name, same parent code object: resolved like the unsubscripted proxy, also in closures) with '
                           'C07_late_subscripted_counterexample (the arguments are dropped); rebinding: C07_spec_def_evaluated / '
                           'C07_rebound_checked_alike (a hint stored proxy-free is the def-point reading in every later state), '
                           'C07_spec_def_now (without rebinding the def-point reading is specNow). Frame introspection, eval of strings and the check '
                           'of the resolved hint are modelled (environment abstraction, Bear core) and tied behaviourally on every run',
                assumptions=['single module; a name BOUND at the def point may be rebound any number of times afterwards (the '
                             'specified hint reads it at the def point: specDef, C07_spec_def_evaluated, '
                             'C07_rebound_checked_alike); a name UNBOUND at the def point (string forms only) is bound at most '
                             'once afterwards (the library fixes it at the first resolution that succeeds; rebinding it after '
                             'that is not generated)',
                             'CPython 3.12 only (PEP 649/749 lazily evaluated annotations are not exercised)',
                             'the model forces every proxy of a hint at every call; the real check is lazy: a run is no longer '
                             'compared from the call on at which one proxy raises while another is resolved for the first time '
                             '(counted as skipped_lazy_ambiguous)',
                             'proxies are identified by (decorated callable, dotted name, parent code object)',
                             'absolute dotted module paths in string annotations are not modelled',
                             'the model is the code AFTER fixes/C07_frame_locals_copied.patch and '
                             'fixes/C07_relative_dotted_forward_ref.patch'])
    return ck.finish()


def deep(ck: Check) -> Explore:
    ex = explore(ck, n=400, seed=ck.seed + 1, bear_every=0, full=True)
    canonicalise(ex)
    pass_over_pending(ck, ex)
    return ex
