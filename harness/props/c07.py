"""C07 — string and postponed annotations are checked exactly like evaluated ones (DESIGN §4 C07, partial).

Tie. Generated PROGRAMS (source text) define one @beartype-checked callable at module level, in (nested) class
bodies (method-level or class-level decoration) or in closures, with the names of its annotation bound before the
decoration, after it but before a call, after a first call, or never, in module / enclosing-function / class scope.
Every program is rendered in four variants (evaluated annotation, whole-annotation string literal,
`from __future__ import annotations`, strings only at the user-class names) and run in a fresh interpreter
(harness/impl/c07run.py) under FORCED sampler draws; each probe yields a verdict vector over a fixed object set
(instances, subclass instances, same-named decoy classes, containers of them in every position).

The same program goes, as a history of bind / enter / leave / def / decorate / call events, through the Lean model
(Core/Fwd.lean), which answers per call with the hint the IMPLEMENTATION checks against (proxies forced: class,
non-class referent through the proxy, name-based fake, raising leaf) and the hint the SPECIFICATION prescribes
(Python's scoping at the def point, evaluated now). Both are turned back into evaluated hint objects in the worker;
reference callables decorated with them give the expected vectors (the Bear model's `chk` gives them a second time
for the implementation side).
  * real vector != vector of the specification hint, or variants differ  -> the property is broken on the real code
  * real vector != vector of the implementation-model hint, crash / cache contents differ -> correspondence
"""
from __future__ import annotations

import concurrent.futures as cf
import copy
import json
import random
import shutil
import tempfile

from ..common import (LEAN, Check, Explore, Failure, lean_driver, parse_sexp, sexp, subproc_json)

MODULE = 'BearVerif.Props.C07'
PROP_FILE = LEAN / 'BearVerif/Props/C07.lean'
DRAWS = [0, 1]
VARIANTS = ['eval', 'str', 'future', 'inner']

# ---------------------------------------------------------------------------
# the fixed part of every program: builtins, prelude imports, helper module
# ---------------------------------------------------------------------------
BUILTINS = {'int': 1, 'str': 2, 'float': 3, 'bytes': 4, 'bool': 5, 'list': 6, 'tuple': 7, 'dict': 8, 'set': 9,
            'frozenset': 10, 'object': 11, 'type': 12}
PRELUDE = {'Optional': 20, 'Union': 21, 'Literal': 22, 'List': 23, 'Dict': 24, 'Sequence': 25, 'typing': 30, 'hm': 31}
SPECIAL_EXPR = {**{i: n for n, i in BUILTINS.items()},
                20: 'typing.Optional', 21: 'typing.Union', 22: 'typing.Literal', 23: 'typing.List', 24: 'typing.Dict',
                25: 'typing.Sequence', 30: 'typing', 31: 'hm', 32: 'hm.Cls', 33: 'hm.Sub', 34: 'hm.Sub.Inner'}
HEAP0 = {30: {'Optional': 20, 'Union': 21, 'Literal': 22, 'List': 23, 'Dict': 24, 'Sequence': 25},
         31: {'Cls': 32, 'Sub': 33}, 33: {'Inner': 34}}
HELPER_SRC = 'class Cls:\n    pass\n\n\nclass Sub:\n    class Inner:\n        pass\n'
PRELUDE_SRC = ('from typing import Optional, Union, Literal, List, Dict, Sequence\nimport typing\n'
               'import c07_helper as hm\nfrom beartype import beartype\n')
HELPER_CLASSES = [32, 34]

BASE_OBJS = [['i', 1], ['s', 'a'], ['f', 2.5], ['none'], ['b', True], ['list', []], ['list', [['i', 1]]],
             ['list', [['s', 'a']]], ['list', [['i', 1], ['s', 'a']]], ['list', [['s', 'a'], ['i', 1]]],
             ['tuple', [['i', 1], ['s', 'a']]], ['tuple', [['i', 1]]], ['tuple', []],
             ['dict', [[['s', 'a'], ['i', 1]]]], ['dict', [[['s', 'a'], ['s', 'b']]]], ['set', [['i', 1]]],
             ['list', [['list', [['i', 1]]]]], ['list', [['list', [['s', 'a']]]]], ['list', [['list', [['i', 1], ['s', 'a']]]]]]


def class_objs(c: int) -> list:
    I = ['inst', c]
    return [I, ['subinst', c], ['decoy', c], ['list', [I]], ['list', [['i', 1], I]], ['list', [I, ['i', 1]]],
            ['list', [['decoy', c], I]], ['list', [I, ['decoy', c]]], ['tuple', [I, ['s', 'a']]], ['tuple', [['i', 1], I]],
            ['tuple', [['i', 1], ['decoy', c]]], ['dict', [[['s', 'a'], I]]], ['dict', [[['s', 'a'], ['decoy', c]]]],
            ['list', [['list', [I]]]], ['list', [['list', [['decoy', c]]]]], ['set', [I]]]


# ---------------------------------------------------------------------------
# hint expressions:  ['n', name] ['a', e, name] ['s', e, [es]] ['o', a, b] ['l', lit] ['q', e]
# ---------------------------------------------------------------------------
def N(n): return ['n', n]
def A(e, n): return ['a', e, n]
def S(e, *es): return ['s', e, list(es)]
def O(a, b): return ['o', a, b]
def L(v): return ['l', v]


LIT_SRC = {'none': 'None', 'ellipsis': '...'}


def lit_src(l):
    if isinstance(l, str):
        return LIT_SRC[l]
    if l[0] == 'b':
        return 'True' if l[1] == 'true' else 'False'
    if l[0] == 'i':
        return str(l[1])
    return repr(l[1])


def render(e, quote="'") -> str:
    """source text of a hint expression (the printer `showE` of Core/Fwd.lean, checked against it)"""
    k = e[0]
    if k == 'n':
        return e[1]
    if k == 'a':
        inner = render(e[1], quote)
        return (f'({inner})' if e[1][0] == 'o' else inner) + '.' + e[2]
    if k == 's':
        inner = render(e[1], quote)
        return (f'({inner})' if e[1][0] == 'o' else inner) + '[' + ', '.join(render(x, quote) for x in e[2]) + ']'
    if k == 'o':
        r = render(e[2], quote)
        return render(e[1], quote) + ' | ' + (f'({r})' if e[2][0] == 'o' else r)
    if k == 'l':
        return lit_src(e[1])
    if k == 'q':
        other = '"' if quote == "'" else "'"
        return quote + render(e[1], other) + quote
    raise ValueError(e)


def is_chain(e):
    return e[0] == 'n' or (e[0] == 'a' and is_chain(e[1]))


def chain_root(e):
    return e[1] if e[0] == 'n' else chain_root(e[1])


def unionize(e):
    """`a | b` -> `Union[a, b]` (a string operand of `|` is a TypeError)"""
    k = e[0]
    if k == 'o':
        return S(N('Union'), unionize(e[1]), unionize(e[2]))
    if k == 'a':
        return A(unionize(e[1]), e[2])
    if k == 's':
        return ['s', unionize(e[1]), [unionize(x) for x in e[2]]]
    return e


def quote_leaves(e, user):
    k = e[0]
    if is_chain(e):
        return ['q', e] if chain_root(e) in user else e
    if k == 'a':
        return A(quote_leaves(e[1], user), e[2])
    if k == 's':
        if e[1] == N('Literal'):
            return e
        return ['s', quote_leaves(e[1], user), [quote_leaves(x, user) for x in e[2]]]
    if k == 'o':
        return O(quote_leaves(e[1], user), quote_leaves(e[2], user))
    return e


def variant_expr(e, variant, user=None):
    user = {n for n in names_of(e) if n not in BUILTINS and (n == 'hm' or n not in PRELUDE)}
    if variant == 'eval':
        return e
    if variant in ('str', 'future'):
        return ['q', e]
    q = quote_leaves(unionize(e), user)
    return q


def names_of(e):
    k = e[0]
    if k == 'n':
        return [e[1]]
    if k in ('a', 'q'):
        return names_of(e[1])
    if k == 's':
        return names_of(e[1]) + [n for x in e[2] for n in names_of(x)]
    if k == 'o':
        return names_of(e[1]) + names_of(e[2])
    return []


# ---------------------------------------------------------------------------
# abstract programs
#   ['cls', name, id, base|None, [[nested name, nested id], …]]      plain class (attributes = nested plain classes)
#   ['alias', name, hexpr]                                             name = <hexpr>
#   ['func', name, code, [stmts]]                                      def name(): stmts   followed by   name()
#   ['class', name, id, code, deco, [stmts]]                           class with a body holding defs
#   ['def', fid, name, hexpr, deco]                                    [@beartype] def name([self,] x: HINT)
#   ['probe', tag, fid]
# ---------------------------------------------------------------------------
def user_names(stmts) -> set:
    out = set()
    for st in stmts:
        if st[0] in ('cls', 'alias'):
            out.add(st[1])
        elif st[0] == 'func':
            out.add(st[1])
            out |= user_names(st[3])
        elif st[0] == 'class':
            out.add(st[1])
            out |= user_names(st[5])
    return out


def class_ids(stmts) -> list:
    out = []
    for st in stmts:
        if st[0] == 'cls':
            out.append(st[2])
            out += [i for _, i in st[4]]
        elif st[0] == 'func':
            out += class_ids(st[3])
        elif st[0] == 'class':
            out.append(st[2])
            out += class_ids(st[5])
    return out


def defs_in(stmts, path=()):
    """(fid, name, class path) of every def inside a class body, recursively through nested classes"""
    out = []
    for st in stmts:
        if st[0] == 'def':
            out.append((st[1], st[2], path))
        elif st[0] == 'class':
            out += defs_in(st[5], path + ((st[1], st[2]),))
    return out


def render_program(stmts, variant, all_names=None) -> str:
    user = user_names(stmts) | {'hm'} if all_names is None else all_names
    lines = []
    if variant == 'future':
        lines.append('from __future__ import annotations')
    lines += PRELUDE_SRC.splitlines()

    def emit(sts, ind, in_class, in_deco_class):
        pad = '    ' * ind
        if not sts:
            lines.append(pad + 'pass')
        for st in sts:
            k = st[0]
            if k == 'cls':
                lines.append(f'{pad}class {st[1]}' + (f'({st[3]})' if st[3] else '') + ':')
                if st[4]:
                    for nn, ni in st[4]:
                        lines.append(f'{pad}    class {nn}:')
                        lines.append(f'{pad}        pass')
                        lines.append(f'{pad}    __reg__({ni}, {nn})')
                else:
                    lines.append(f'{pad}    pass')
                lines.append(f'{pad}__reg__({st[2]}, {st[1]})')
            elif k == 'alias':
                lines.append(f'{pad}{st[1]} = {render(st[2])}')
            elif k == 'func':
                lines.append(f'{pad}def {st[1]}():')
                emit(st[3], ind + 1, False, False)
                lines.append(f'{pad}{st[1]}()')
            elif k == 'class':
                if st[4]:
                    lines.append(f'{pad}@beartype')
                lines.append(f'{pad}class {st[1]}:')
                emit(st[5], ind + 1, True, in_deco_class or st[4])
                lines.append(f'{pad}__reg__({st[2]}, {st[1]})')
                if st[4] and not in_deco_class:
                    for fid, fname, cpath in defs_in(st[5]):
                        owner = '.'.join([st[1]] + [c for c, _ in cpath])
                        lines.append(f"{pad}__reg__({fid}, {owner}.__dict__['{fname}'], 'func')")
            elif k == 'def':
                if st[4]:
                    lines.append(f'{pad}@beartype')
                ann = render(variant_expr(st[3], variant, user))
                lines.append(f'{pad}def {st[2]}({"self, " if in_class else ""}x: {ann}):')
                lines.append(f'{pad}    return None')
                if not in_deco_class:
                    lines.append(f"{pad}__reg__({st[1]}, {st[2]}, 'func')")
            elif k == 'probe':
                lines.append(f"{pad}__probe__('{st[1]}', {st[2]}, {METHODS_PLACEHOLDER})")
            else:
                raise ValueError(st)
    emit(stmts, 0, False, False)
    src = '\n'.join(lines) + '\n'
    return src


METHODS_PLACEHOLDER = '__IS_METHOD__'


def finalize_src(src: str, methods: set) -> str:
    out = []
    for line in src.splitlines():
        if METHODS_PLACEHOLDER in line:
            fid = int(line.split(',')[1])
            line = line.replace(METHODS_PLACEHOLDER, 'True' if fid in methods else 'False')
        out.append(line)
    return '\n'.join(out) + '\n'


def method_fids(stmts, in_class=False) -> set:
    out = set()
    for st in stmts:
        if st[0] == 'def' and in_class:
            out.add(st[1])
        elif st[0] == 'func':
            out |= method_fids(st[3], False)
        elif st[0] == 'class':
            out |= method_fids(st[5], True)
    return out


class Ids:
    def __init__(self):
        self.n = 1000

    def fresh(self):
        self.n += 1
        return self.n


def events(stmts, variant) -> tuple[list, dict]:
    """(model events, static heap additions) of a program; every event carries the index path of its statement"""
    user = user_names(stmts) | {'hm'}
    heap = {}
    evs = []
    ids = Ids()

    def walk(sts, in_deco_class):
        for st in sts:
            k = st[0]
            if k == 'cls':
                heap[st[2]] = {nn: ni for nn, ni in st[4]}
                evs.append(['bindV', st[1], ['obj', st[2]]])
            elif k == 'alias':
                evs.append(['bindE', st[1], st[2]])
            elif k == 'func':
                evs.append(['bindV', st[1], ['obj', ids.fresh()]])
                evs.append(['enter', 'fn', st[2], st[1]])
                walk(st[3], False)
                evs.append(['leave', 0])
            elif k == 'class':
                evs.append(['enter', 'cls', st[3], st[1]])
                walk(st[5], in_deco_class or st[4])
                evs.append(['leave', st[2]])
                if st[4] and not in_deco_class:
                    for fid, fname, cpath in defs_in(st[5]):
                        evs.append(['decorate', fid, [[st[1], st[2]]] + [[c, i] for c, i in cpath]])
                evs.append(['bindV', st[1], ['obj', st[2]]])
            elif k == 'def':
                evs.append(['def', st[1], st[2], variant_expr(st[3], variant, user)])
                if st[4]:
                    evs.append(['decorate', st[1], []])
                evs.append(['bindV', st[2], ['obj', ids.fresh()]])
            elif k == 'probe':
                evs.append(['call', st[2], st[1]])
    walk(stmts, False)
    return evs, heap


def lit_sx(l):
    if isinstance(l, str):
        return l
    if l[0] == 'str':
        return ['str', l[1]]
    return [l[0], str(l[1])]


def expr_sx(e):
    k = e[0]
    if k == 'n':
        return ['n', e[1]]
    if k == 'a':
        return ['a', expr_sx(e[1]), e[2]]
    if k == 's':
        return ['s', expr_sx(e[1]), [expr_sx(x) for x in e[2]]]
    if k == 'o':
        return ['o', expr_sx(e[1]), expr_sx(e[2])]
    if k == 'l':
        return ['l', lit_sx(e[1])]
    if k == 'q':
        return ['q', expr_sx(e[1])]
    raise ValueError(e)


def model_line(stmts, variant) -> tuple[str, list]:
    evs, heap = events(stmts, variant)
    sx = []
    for ev in evs:
        if ev[0] == 'bindV':
            sx.append(['bindV', ev[1], ['obj', ev[2][1]]])
        elif ev[0] == 'bindE':
            sx.append(['bindE', ev[1], expr_sx(ev[2])])
        elif ev[0] == 'def':
            sx.append(['def', ev[1], ev[2], expr_sx(ev[3])])
        elif ev[0] == 'call':
            sx.append(['call', ev[1]])
        else:
            sx.append(ev)
    prelude = [['bindV', n, ['obj', i]] for n, i in PRELUDE.items()]
    full_heap = {**HEAP0, **heap}
    hp = [[i] + [[n, ['obj', j]] for n, j in attrs.items()] for i, attrs in full_heap.items()]
    bi = [[n, ['obj', i]] for n, i in BUILTINS.items()]
    return sexp(['c07', 'run', bi, hp, prelude + sx]), [None] * len(prelude) + evs


def run_model(progs: list) -> list:
    """per program, per variant: {'crash': None | (event index, kind, arg), 'calls': {tag: {'impl','spec','cache'}}}"""
    lines, metas = [], []
    for p in progs:
        for v in VARIANTS:
            line, evs = model_line(p['stmts'], v)
            lines.append(line)
            metas.append(evs)
    res = lean_driver(lines, 'C07')
    out, k = [], 0
    for p in progs:
        per = {}
        for v in VARIANTS:
            r = parse_sexp(res[k])
            assert r[0] == 'ok', (res[k], lines[k])
            evs = metas[k]
            k += 1
            calls, crash = {}, None
            for ev, o in zip(evs, r[1]):
                if o == 'silent':
                    continue
                if o[0] == 'crash':
                    crash = {'kind': o[1], 'arg': o[2], 'event': ev}
                    break
                if o[0] == 'called' and ev is not None:
                    calls[ev[2]] = {'impl': o[1], 'spec': o[2], 'cache': sorted(['.'.join(c[0]), c[1]] for c in o[3])}
            per[v] = {'crash': crash, 'calls': calls}
        out.append(per)
    return out


# ---------------------------------------------------------------------------
# generator
# ---------------------------------------------------------------------------
PLACEMENTS = {
    'mod': [],
    'meth': [('cls', 'C', False)],
    'meth2': [('cls', 'C', False), ('cls', 'D', False)],
    'cdeco': [('cls', 'C', True)],
    'cdeco2': [('cls', 'C', True), ('cls', 'D', False)],
    'cdeco_in': [('cls', 'C', False), ('cls', 'D', True)],
    'clo1': [('fn', 'outer')],
    'clo2': [('fn', 'outer'), ('fn', 'mid')],
    'fn_meth': [('fn', 'outer'), ('cls', 'C', False)],
    'fn_cdeco': [('fn', 'outer'), ('cls', 'C', True)],
    'fn_cdeco2': [('fn', 'outer'), ('cls', 'C', True), ('cls', 'D', False)],
    'clo2_meth': [('fn', 'outer'), ('fn', 'mid'), ('cls', 'C', False)],
}
PLACEMENT_WEIGHTS = {'mod': 3, 'meth': 3, 'meth2': 1, 'cdeco': 2, 'cdeco2': 1, 'cdeco_in': 1, 'clo1': 3, 'clo2': 2,
                     'fn_meth': 1, 'fn_cdeco': 1, 'fn_cdeco2': 1, 'clo2_meth': 1}

SHAPES1 = {
    'bare': lambda a: a,
    'or_int': lambda a: O(a, N('int')),
    'int_or': lambda a: O(N('int'), a),
    'optional': lambda a: S(N('Optional'), a),
    'union_str': lambda a: S(N('Union'), a, N('str')),
    'list': lambda a: S(N('list'), a),
    'List': lambda a: S(N('List'), a),
    'tuple_var': lambda a: S(N('tuple'), a, L('ellipsis')),
    'tuple_fix': lambda a: S(N('tuple'), N('int'), a),
    'dict_val': lambda a: S(N('dict'), N('str'), a),
    'sequence': lambda a: S(N('Sequence'), a),
    'list_list': lambda a: S(N('list'), S(N('list'), a)),
    'set': lambda a: S(N('set'), a),
    'typing_optional': lambda a: S(A(N('typing'), 'Optional'), a),
    'literal_or': lambda a: O(S(N('Literal'), L(['i', 1]), L(['str', 'a'])), a),
    'list_or_none': lambda a: O(S(N('list'), a), L('none')),
}
SHAPES2 = {
    'or2': lambda a, b: O(a, b),
    'tuple2': lambda a, b: S(N('tuple'), a, b),
    'dict_or2': lambda a, b: S(N('dict'), N('str'), O(a, b)),
    'union_list': lambda a, b: S(N('Union'), a, S(N('list'), b)),
    'list_or_list': lambda a, b: O(S(N('list'), a), S(N('list'), b)),
}
LEAF_NAMES = ['K', 'T', 'Later', 'Node', 'U']
VALUE_KINDS = ['cls', 'cls', 'cls', 'holder', 'alias_seq', 'alias_union', 'alias_cls']


def wchoice(rng, table: dict):
    ks = list(table)
    return rng.choices(ks, weights=[table[k] for k in ks])[0]


class Builder:
    def __init__(self, rng, placement):
        self.rng = rng
        self.placement = placement
        self.scopes = [{'kind': 'mod', 'pre': [], 'post': []}] + [
            {'kind': s[0], 'name': s[1], 'deco': (s[2] if s[0] == 'cls' else False), 'pre': [], 'post': []}
            for s in PLACEMENTS[placement]]
        self.nid = 100
        self.ntag = 0
        self.fid = 500
        self.leaves = []

    def fresh(self):
        self.nid += 1
        return self.nid

    def tag(self):
        self.ntag += 1
        return f'p{self.ntag}'

    def bind_stmt(self, name, kind, alt=False):
        if kind == 'cls':
            return ['cls', name, self.fresh(), None, []]
        if kind == 'holder':
            return ['cls', name, self.fresh(), None, [['In', self.fresh()]]]
        if kind == 'alias_seq':
            return ['alias', name, S(N('list'), N('str' if alt else 'int'))]
        if kind == 'alias_union':
            return ['alias', name, O(N('float'), N('bytes')) if alt else O(N('int'), N('str'))]
        if kind == 'alias_cls':
            return ['alias', name, N('float' if alt else 'int')]
        raise ValueError(kind)

    def in_deco_body(self, i):
        """is scope i (or an enclosing one) the body of a class decorated as a whole?"""
        return any(s['kind'] == 'cls' and s['deco'] for s in self.scopes[1:i + 1])

    def can_probe(self, i):
        return not self.in_deco_body(i)

    def build(self, hint, leaves, probe_after_def, end_probes):
        innermost = len(self.scopes) - 1
        in_class = self.scopes[innermost]['kind'] == 'cls'
        # is the def itself decorated? (not when a class around it is decorated as a whole)
        deco = not self.in_deco_body(innermost)
        d = ['def', self.fid, 'm' if in_class else 'f', hint, deco]
        for lf in leaves:
            for site, time, kind, alt in lf['binds']:
                st = self.bind_stmt(lf['name'], kind, alt)
                sc = self.scopes[site]
                if time == 'pre':
                    sc['pre'].append(st)
                else:
                    sc['post'].append(st)
                    if self.can_probe(site) and lf.get('probe_after', True):
                        sc['post'].append(['probe', self.tag(), self.fid])
        # assemble inside out
        body = [d]
        if probe_after_def and self.can_probe(innermost):
            body.append(['probe', self.tag(), self.fid])
        for i in range(innermost, 0, -1):
            sc = self.scopes[i]
            inner = sc['pre'] + body + sc['post']
            if sc['kind'] == 'fn':
                body = [['func', sc['name'], self.fresh(), inner]]
            else:
                body = [['class', sc['name'], self.fresh(), self.fresh(), sc['deco'], inner]]
            # a probe in the ENCLOSING scope right after this scope ends (e.g. after mid() returned, outer running)
            if i > 1 and self.can_probe(i - 1) and self.rng.random() < 0.5:
                body.append(['probe', self.tag(), self.fid])
        m = self.scopes[0]
        stmts = m['pre'] + body + m['post']
        first = True
        out = []
        for st in stmts:
            out.append(st)
        if not any(s[0] == 'probe' for s in m['post']) or True:
            for _ in range(end_probes):
                out.append(['probe', self.tag(), self.fid])
        # a probe at module level right after the placement body, before the module-level late bindings
        k = len(m['pre']) + len(body)
        if m['post'] and self.rng.random() < 0.7:
            out.insert(k, ['probe', self.tag(), self.fid])
        return out


def gen_program(rng: random.Random) -> dict:
    placement = wchoice(rng, PLACEMENT_WEIGHTS)
    b = Builder(rng, placement)
    nsc = len(b.scopes)
    nleaves = 1 if rng.random() < 0.7 else 2
    names = rng.sample(LEAF_NAMES, nleaves)
    leaves, exprs = [], []
    for name in names:
        r = rng.random()
        cls_scopes = [(i, s) for i, s in enumerate(b.scopes) if s['kind'] == 'cls']
        if r < 0.10:
            exprs.append(rng.choice([A(N('hm'), 'Cls'), A(A(N('hm'), 'Sub'), 'Inner')]))
            continue
        if r < 0.22 and cls_scopes:
            # self reference: an enclosing class by (dotted) name
            j = rng.randrange(len(cls_scopes))
            e = N(cls_scopes[0][1]['name'])
            for _, s in cls_scopes[1:j + 1]:
                e = A(e, s['name'])
            exprs.append(e)
            continue
        kind = rng.choice(VALUE_KINDS)
        site = rng.randrange(nsc)
        time = rng.choices(['pre', 'post', 'never'], weights=[4, 4, 1.5])[0]
        if name in BUILTINS:
            time = 'pre'
        binds = []
        if time != 'never':
            binds.append((site, time, kind, False))
        if time == 'pre' and rng.random() < 0.4 and nsc > 1:
            j = rng.choice([i for i in range(nsc) if i != site])
            binds.append((j, 'pre', rng.choice(['cls', 'alias_cls', 'alias_cls']), True))
        leaves.append({'name': name, 'binds': binds, 'probe_after': rng.random() < 0.85})
        exprs.append(A(N(name), 'In') if kind == 'holder' else N(name))
    if nleaves == 1:
        shape = rng.choice(list(SHAPES1))
        hint = SHAPES1[shape](exprs[0])
    else:
        shape = rng.choice(list(SHAPES2))
        hint = SHAPES2[shape](exprs[0], exprs[1])
    stmts = b.build(hint, leaves, probe_after_def=rng.random() < 0.6, end_probes=rng.choice([1, 1, 2]))
    return {'stmts': stmts, 'placement': placement, 'shape': shape}


# ---------------------------------------------------------------------------
# running the real code
# ---------------------------------------------------------------------------
def objspecs_of(stmts) -> list:
    out = list(BASE_OBJS)
    for c in HELPER_CLASSES + class_ids(stmts):
        out += class_objs(c)
    return out


def payload_of(prog: dict, model: dict, tmp: str, bear: bool) -> dict:
    methods = method_fids(prog['stmts'])
    variants = {}
    for v in VARIANTS:
        src = finalize_src(render_program(prog['stmts'], v), methods)
        exp = {tag: {'impl': c['impl'], 'spec': c['spec']} for tag, c in model[v]['calls'].items()}
        variants[v] = {'src': src, 'expect': exp}
    return {'tmp': tmp, 'draws': DRAWS, 'helper': HELPER_SRC, 'variants': variants, 'objspecs': objspecs_of(prog['stmts']),
            'special': {str(i): e for i, e in SPECIAL_EXPR.items()}, 'bear': bear}


def run_real(progs: list, models: list, bear_every: int = 0) -> list:
    root = tempfile.mkdtemp(prefix='c07_')
    try:
        def one(i):
            import os
            tmp = os.path.join(root, f'p{i}')
            os.mkdir(tmp)
            pl = payload_of(progs[i], models[i], tmp, bool(bear_every) and i % bear_every == 0)
            try:
                return subproc_json('harness.impl.c07run', pl, timeout=600)
            except Exception as e:                                  # noqa: BLE001
                return {'worker_error': str(e)[-2000:]}
        with cf.ThreadPoolExecutor(max_workers=16) as ex:
            return list(ex.map(one, range(len(progs))))
    finally:
        shutil.rmtree(root, ignore_errors=True)


# ---------------------------------------------------------------------------
# oracles
# ---------------------------------------------------------------------------
def leaves_diff(a, b, path=()):
    """first differing position of two model terms: (path, sub-term a, sub-term b) or None"""
    if a == b:
        return None
    if a[0] != b[0] or a[0] in ('obj', 'fake', 'unres', 'lit', 'str'):
        return (path, a, b)
    if a[0] == 'via':
        return leaves_diff(a[1], b[1], path + ('via',))
    if a[0] == 'bor':
        return leaves_diff(a[1], b[1], path + (0,)) or leaves_diff(a[2], b[2], path + (1,))
    if a[0] == 'sub':
        d = leaves_diff(a[1], b[1], path + ('h',))
        if d:
            return d
        if len(a[2]) != len(b[2]):
            return (path, a, b)
        for i, (x, y) in enumerate(zip(a[2], b[2])):
            d = leaves_diff(x, y, path + (i,))
            if d:
                return d
    return (path, a, b)


def expr_at(e, path):
    """the source sub-expression at a term path (terms mirror the expression tree)"""
    while e[0] == 'q':
        e = e[1]
    for p in path:
        while e[0] == 'q':
            e = e[1]
        if p == 'via':
            continue
        if e[0] == 'o':
            e = e[1 + p]
        elif e[0] == 's':
            e = e[1] if p == 'h' else e[2][p]
        else:
            break
    while e[0] == 'q':
        e = e[1]
    return e


def scope_chain(stmts):
    """(chain of (kind, name, deco) from the module down to the def, the def statement)"""
    def find(sts, chain):
        for st in sts:
            if st[0] == 'def':
                return chain, st
            if st[0] == 'func':
                r = find(st[3], chain + [('fn', st[1], False)])
                if r:
                    return r
            if st[0] == 'class':
                r = find(st[5], chain + [('cls', st[1], st[4])])
                if r:
                    return r
        return None
    return find(stmts, [])


def binds_of(stmts, name, chain_names):
    """where `name` is bound: list of (scope description relative to the def, 'pre'|'post')"""
    out = []

    def walk(sts, chain, seen_def):
        for st in sts:
            if st[0] in ('cls', 'alias') and st[1] == name:
                depth = len(chain)
                if chain != chain_names[:depth]:
                    where = 'elsewhere'
                elif depth == 0:
                    where = 'global'
                else:
                    dist = len(chain_names) - depth          # 0 = directly enclosing scope
                    where = ('direct-' if dist == 0 else 'outer-') + chain[-1][0]
                kind = 'class' if st[0] == 'cls' else ('alias-class' if st[2][0] == 'n' else 'alias-hint')
                out.append((where, 'post' if seen_def[0] else 'pre', kind))
            elif st[0] == 'def':
                seen_def[0] = True
            elif st[0] == 'func':
                walk(st[3], chain + [('fn', st[1])], seen_def)
            elif st[0] == 'class':
                if st[1] == name:
                    out.append(('self-class', 'post', 'class'))
                walk(st[5], chain + [('cls', st[1])], seen_def)
    walk(stmts, [], [False])
    return out


def probe_context(stmts, tag):
    """names of the scopes running when the probe executes"""
    def find(sts, chain):
        for st in sts:
            if st[0] == 'probe' and st[1] == tag:
                return chain
            if st[0] == 'func':
                r = find(st[3], chain + [st[1]])
                if r is not None:
                    return r
            if st[0] == 'class':
                r = find(st[5], chain + [st[1]])
                if r is not None:
                    return r
        return None
    return find(stmts, [])


def deviation_key(prog, variant, tag, impl, spec) -> tuple[str, str]:
    """canonical identity of a predicted deviation between implementation model and specification"""
    chain, d = scope_chain(prog['stmts'])
    dv = leaves_diff(impl, spec)
    path, a, b = dv
    e = expr_at(variant_expr(d[3], variant), path)
    name = chain_root(e) if is_chain(e) else '?'
    dotted = 'dotted' if e[0] == 'a' else 'bare'
    chain_names = [(k, n) for k, n, _ in chain]
    binds = binds_of(prog['stmts'], name, chain_names)
    running = probe_context(prog['stmts'], tag) or []
    lex = [n for _, n, _ in chain]
    parent = 'module' if not lex else ('parent-running' if running[:len(lex)] == lex else
                                      ('parent-returned' if running else 'all-returned'))
    deco = 'class-decorated' if any(dc for _, _, dc in chain) else 'def-decorated'
    kind = f'{a[0]}-instead-of-{b[0]}'
    where = '+'.join(sorted({f'{w}/{t}/{k}' for w, t, k in binds})) or 'unbound'
    place = '/'.join(k for k, _, _ in chain) or 'module'
    key = f'C07:{kind}:{dotted}:{where}:in-{place}:{deco}:{parent}'
    return key, name


def cmp_vectors(actual, expected, free):
    """positions where the real verdict is not allowed by the expected one ('F' also allowed where the
    unresolvable leaf is not needed)"""
    bad = []
    for d, (va, ve, vf) in enumerate(zip(actual, expected, free)):
        for i, (a, e, f) in enumerate(zip(va, ve, vf)):
            if a == e or (f and a == 'F'):
                continue
            bad.append((d, i, a, e))
    return bad
