"""Translator: memoisation sites of beartype and their KEY DISCIPLINE -> lean/BearVerif/Extracted/Memo.lean.

Read from the source text (AST) of $VERIF_REPO on every run:
  * the memoising decorators (`beartype/_util/cache/utilcachecall.py`, `beartype/typing/_typingcache.py`) and,
    from each decorator's own wrapper body, how it builds its dictionary key:
        key contains `id(...)`                        -> "id-raw"     (addresses; objects may die)
        … and the entry also stores the objects        -> "id-pinned"  (keyed objects kept alive / identity validated)
        key is the argument tuple itself               -> "eq"         (Python ==/hash)
        value stored as an attribute of `self`         -> "attr"       (dies with its object)
  * every function of the package decorated with one of them (the memoisation sites);
  * every module-level dictionary-like cache that some function mutates, with the discipline of the key
    expressions found at its uses; `coerce_hint_any` is inspected for the `==` validation of a repr hit
    ("repr-raw" / "repr-checked").
  * the tree-wide cacheability flag of a type-checking expression (`HintTreeCode.is_check_expr_cacheable`): how
    `sanify_hint_child` combines it with the flag of each child ("and": `&=` / `x = x and …` / `if not …: x = False`;
    "last": plain assignment of the child's flag; "unknown"), and whether every store into the expression / checker
    tables (`make_check_expr`, `make_func_checker`) is guarded by an `if` on that flag.
A cache whose discipline cannot be determined is emitted as "unknown"; Props/C14.lean proves (by `decide`) that
every discipline that occurs is one for which memo-invisibility is proved, so a newly added id-keyed or
unclassified cache breaks a table theorem.
"""
from __future__ import annotations

import ast
from pathlib import Path

from ..common import LEAN, REPO, write_if_changed

DECORATOR_FILES = ['beartype/_util/cache/utilcachecall.py', 'beartype/typing/_typingcache.py']
CACHE_CTORS = {'CacheUnboundedStrong', 'defaultdict', 'dict', 'OrderedDict', 'WeakValueDictionary', 'WeakKeyDictionary'}
MUTATORS = {'clear', 'setdefault', 'update', 'pop', 'popitem', 'add', '__setitem__',
            'cache_or_get_cached_value', 'cache_or_get_cached_func_return_passed_arg', 'cache_value'}
KEYED_CALLS = {'get', 'setdefault', 'pop', '__getitem__', '__setitem__', '__contains__'}

# What a table is FOR, where the AST cannot tell (keys reach the table through a parameter, or the table is
# keyed by names on purpose). The AST-derived discipline overrides "eq" when it finds id()/repr() keys.
TABLE_NOTES = {
    '_HINT_CONF_EXCEPTION_PREFIX_TO_FUNC_RAISER': 'eq',     # CACHE_KEY = (hint, conf, exception_prefix) in make_func_checker
    '_HINT_CONF_EXCEPTION_PREFIX_TO_FUNC_TESTER': 'eq',
    '_BEARTYPED_MODULE_TO_TYPE_NAME': 'name',               # the redefinition detector itself: module name -> class names
    '_MODULE_NAME_TO_ATTR_NAME_TO_VALUE': 'name',           # module attribute cache, emptied by clear_caches()
    '_ref_proxy_to_resolved_hint': 'fwdref',                # keyed by the proxy (==), value depends on the namespace NOW
    '_ref_proxy_to_resolved_type': 'fwdref',
    '_PACKAGE_NAME_TO_TRIE_BLACKLISTED': 'name',            # C06's registry, not a memo of answers
    '_beartype_conf_args_to_conf': 'eq',                    # C17
    '_bear_conf_to_decor': 'eq',
}


def _name(node):
    if isinstance(node, ast.Name):
        return node.id
    if isinstance(node, ast.Attribute):
        return node.attr
    if isinstance(node, ast.Call):
        return _name(node.func)
    return None


def _calls(node, names):
    return any(isinstance(c, ast.Call) and _name(c.func) in names for c in ast.walk(node))


def key_discipline(expr) -> str:
    if _calls(expr, {'id'}):
        return 'id'
    if _calls(expr, {'repr', 'get_hint_repr'}):
        return 'repr'
    return 'eq'


def decorator_discipline(fn: ast.FunctionDef) -> str | None:
    """Discipline of a memoising decorator, from the wrapper it defines."""
    inner = [n for n in ast.walk(fn) if isinstance(n, ast.FunctionDef) and n is not fn]
    has_dict = any(isinstance(n, (ast.Assign, ast.AnnAssign)) and isinstance(getattr(n, 'value', None), ast.Dict)
                   for n in fn.body)
    if not inner or not has_dict:
        # no closure dictionary: `property_cached` style (value stored on the object through an exec'd template)
        src = ast.unparse(fn)
        if 'exec(' in src or 'setattr(' in src:
            return 'attr'
        return None
    w = inner[0]
    params = [a.arg for a in w.args.args]
    key_var, key_expr = None, None
    for n in ast.walk(w):
        if isinstance(n, ast.Assign) and len(n.targets) == 1 and isinstance(n.targets[0], ast.Name):
            # the variable later used as subscript / .get() argument of a closure dictionary
            nm = n.targets[0].id
            used_as_key = any(isinstance(s, ast.Subscript) and isinstance(s.slice, ast.Name) and s.slice.id == nm
                              for s in ast.walk(w)) or \
                any(isinstance(c, ast.Call) and c.args and isinstance(c.args[0], ast.Name) and c.args[0].id == nm
                    and (_name(c.func) or '').endswith('get') for c in ast.walk(w))
            if used_as_key and key_var is None:
                key_var, key_expr = nm, n.value
    if key_expr is None:
        return 'unknown'
    d = key_discipline(key_expr)
    if d != 'id':
        return d
    # id-keyed: does an entry keep the keyed objects alive (stores them) or validate identity on a hit?
    keyed_objs = {c.args[0].id for c in ast.walk(key_expr)
                  if isinstance(c, ast.Call) and _name(c.func) == 'id' and c.args and isinstance(c.args[0], ast.Name)}
    keyed_objs &= set(params)

    def bare_names(e):
        """parameter names occurring in `e` outside any call (an argument of `func(…)` or `id(…)` is not stored)"""
        out = set()

        def go(x):
            if isinstance(x, ast.Call):
                return
            if isinstance(x, ast.Name):
                out.add(x.id)
            for ch in ast.iter_child_nodes(x):
                go(ch)
        go(e)
        return out
    stores_objs = False
    for n in ast.walk(w):
        if isinstance(n, ast.Assign):
            to_table = any(isinstance(t, ast.Subscript) and isinstance(t.slice, ast.Name) and t.slice.id == key_var
                           for t in n.targets)
            if to_table and keyed_objs and keyed_objs <= bare_names(n.value):
                stores_objs = True
    validates = any(isinstance(n, ast.Compare) and any(isinstance(o, (ast.Is, ast.IsNot)) for o in n.ops)
                    and (bare_names(n) & keyed_objs) for n in ast.walk(w))
    return 'id-pinned' if (stores_objs or validates) else 'id-raw'


def scan():
    pkg = REPO / 'beartype'
    trees = {}
    for p in sorted(pkg.rglob('*.py')):
        try:
            trees[p] = ast.parse(p.read_text())
        except SyntaxError:
            continue
    # 1. decorators
    decorators = {}
    for rel in DECORATOR_FILES:
        p = REPO / rel
        if p in trees:
            for n in trees[p].body:
                if isinstance(n, ast.FunctionDef) and 'cached' in n.name:
                    d = decorator_discipline(n)
                    if d is not None:
                        decorators[n.name] = d
    # 2. sites
    sites = []
    for p, tree in trees.items():
        mod = '.'.join(p.relative_to(REPO).with_suffix('').parts)
        for n in ast.walk(tree):
            if isinstance(n, (ast.FunctionDef, ast.AsyncFunctionDef)):
                for d in n.decorator_list:
                    dn = _name(d)
                    if dn in decorators or (dn and 'cache' in dn.lower() and dn not in ('lru_cache',) and 'cached' in dn):
                        sites.append((f'{mod}.{n.name}', dn))
    # 3. module-level dictionary-like caches that something mutates
    cands = {}
    for p, tree in trees.items():
        mod = '.'.join(p.relative_to(REPO).with_suffix('').parts)
        for n in tree.body:
            tgt = val = None
            if isinstance(n, ast.Assign) and len(n.targets) == 1 and isinstance(n.targets[0], ast.Name):
                tgt, val = n.targets[0].id, n.value
            elif isinstance(n, ast.AnnAssign) and isinstance(n.target, ast.Name) and n.value is not None:
                tgt, val = n.target.id, n.value
            if tgt is None:
                continue
            if (isinstance(val, ast.Dict) and not val.keys) or \
                    (isinstance(val, ast.Call) and _name(val.func) in CACHE_CTORS and not (val.args and isinstance(val.args[0], (ast.Dict, ast.List, ast.Tuple)))):
                cands[tgt] = mod
    # aliases `X_get = X.get`
    alias = {}
    for p, tree in trees.items():
        for n in tree.body:
            if isinstance(n, ast.Assign) and len(n.targets) == 1 and isinstance(n.targets[0], ast.Name) \
                    and isinstance(n.value, ast.Attribute) and isinstance(n.value.value, ast.Name) and n.value.value.id in cands:
                alias[n.targets[0].id] = (n.value.value.id, n.value.attr)
    mutated, keys = set(), {t: [] for t in cands}

    def resolve(expr, local):
        """a key given as a local variable stands for what that variable was assigned in the same function"""
        if isinstance(expr, ast.Name) and expr.id in local:
            return local[expr.id]
        return [expr]

    def visit(node, local):
        if isinstance(node, (ast.FunctionDef, ast.AsyncFunctionDef)):
            local = {}
            for n in ast.walk(node):
                if isinstance(n, ast.Assign) and len(n.targets) == 1 and isinstance(n.targets[0], ast.Name):
                    local.setdefault(n.targets[0].id, []).append(n.value)
        n = node
        if isinstance(n, ast.Subscript) and isinstance(n.value, ast.Name) and n.value.id in cands:
            keys[n.value.id] += resolve(n.slice, local)
            if isinstance(n.ctx, (ast.Store, ast.Del)):
                mutated.add(n.value.id)
        elif isinstance(n, ast.Call):
            f = n.func
            if isinstance(f, ast.Attribute) and isinstance(f.value, ast.Name) and f.value.id in cands:
                t = f.value.id
                if f.attr in MUTATORS:
                    mutated.add(t)
                for kw in n.keywords:
                    if kw.arg == 'key':
                        keys[t] += resolve(kw.value, local)
                if f.attr in KEYED_CALLS and n.args:
                    keys[t] += resolve(n.args[0], local)
            elif isinstance(f, ast.Name) and f.id in alias and n.args:
                t, attr = alias[f.id]
                keys[t] += resolve(n.args[0], local)
                if attr in MUTATORS:
                    mutated.add(t)
        elif isinstance(n, ast.Compare) and any(isinstance(o, (ast.In, ast.NotIn)) for o in n.ops):
            for c in n.comparators:
                if isinstance(c, ast.Name) and c.id in cands:
                    keys[c.id] += resolve(n.left, local)
        for ch in ast.iter_child_nodes(node):
            visit(ch, local)
    for p, tree in trees.items():
        visit(tree, {})
    tables = []
    for t, mod in sorted(cands.items(), key=lambda kv: (kv[1], kv[0])):
        if t not in mutated and t not in TABLE_NOTES:
            continue                                        # a constant table, not a cache
        ds = {key_discipline(k) for k in keys[t]}
        if 'id' in ds:
            d = 'id-raw'
        elif 'repr' in ds:
            d = 'repr'
        elif t in TABLE_NOTES:
            d = TABLE_NOTES[t]
        elif ds == {'eq'}:
            d = 'eq'
        else:
            d = 'unknown'
        tables.append((f'{mod}.{t}', d))
    # 4. the repr-keyed coercion: is a hit validated with == ?
    repr_checked = False
    p = REPO / 'beartype/_check/convert/_convcoerce.py'
    for n in ast.walk(trees.get(p, ast.parse(''))):
        if isinstance(n, ast.FunctionDef) and n.name == 'coerce_hint_any':
            param = n.args.args[0].arg
            for c in ast.walk(n):
                if isinstance(c, ast.Compare) and any(isinstance(o, (ast.Eq, ast.NotEq)) for o in c.ops):
                    names = {x.id for x in ast.walk(c) if isinstance(x, ast.Name)}
                    if param in names and len(names) >= 2:
                        repr_checked = True
    tables = [(t, ('repr-checked' if repr_checked else 'repr-raw') if d == 'repr' else d) for t, d in tables]
    return decorators, sorted(set(sites)), tables, repr_checked


TREE_FLAG = 'is_check_expr_cacheable'
GUARDED_STORES = [('beartype/_check/code/codemain.py', 'make_check_expr', '_HINT_CONF_TO_CHECK_EXPR'),
                  ('beartype/_check/checkmake.py', 'make_func_checker', 'hint_conf_exception_prefix_to_func_checker')]


def _is_self_flag(node) -> bool:
    return isinstance(node, ast.Attribute) and node.attr == TREE_FLAG and isinstance(node.value, ast.Name) and node.value.id == 'self'


def tree_flag_accumulation() -> str:
    """How HintTreeCode.sanify_hint_child() combines the tree's flag with the flag of the child just sanified."""
    p = REPO / 'beartype/_check/cls/hint/tree/hinttreecode.py'
    try:
        tree = ast.parse(p.read_text())
    except (OSError, SyntaxError):
        return 'unknown'
    kinds = set()
    for fn in ast.walk(tree):
        if not (isinstance(fn, ast.FunctionDef) and fn.name == 'sanify_hint_child'):
            continue
        for n in ast.walk(fn):
            if isinstance(n, ast.AugAssign) and _is_self_flag(n.target):
                kinds.add('and' if isinstance(n.op, ast.BitAnd) else 'unknown')
            elif isinstance(n, ast.Assign) and any(_is_self_flag(t) for t in n.targets):
                v = n.value
                conj = isinstance(v, ast.BoolOp) and isinstance(v.op, ast.And) or isinstance(v, ast.BinOp) and isinstance(v.op, ast.BitAnd)
                if conj and any(_is_self_flag(x) for x in ast.walk(v)):
                    kinds.add('and')                       # x = x and child / x = x & child
                elif isinstance(v, ast.Constant) and v.value is False:
                    kinds.add('and')                       # if not child: x = False
                else:
                    kinds.add('last')
    if kinds == {'and'}:
        return 'and'
    if 'last' in kinds:
        return 'last'
    return 'unknown'


def ctx_stores_guarded() -> bool:
    """Is every store into the expression / checker tables lexically inside an `if` testing the cacheability flag?"""
    for rel, fname, table in GUARDED_STORES:
        try:
            tree = ast.parse((REPO / rel).read_text())
        except (OSError, SyntaxError):
            return False
        stores = []

        def go(node, guarded):
            if isinstance(node, ast.If):
                g = guarded or any(isinstance(x, ast.Attribute) and x.attr == TREE_FLAG for x in ast.walk(node.test))
                for ch in node.body:
                    go(ch, g)
                for ch in node.orelse:
                    go(ch, guarded)
                return
            if isinstance(node, ast.Assign) and any(isinstance(t, ast.Subscript) and isinstance(t.value, ast.Name) and t.value.id == table
                                                    for t in node.targets):
                stores.append(guarded)
            for ch in ast.iter_child_nodes(node):
                go(ch, guarded)
        for fn in ast.walk(tree):
            if isinstance(fn, ast.FunctionDef) and fn.name == fname:
                go(fn, False)
        if not stores or not all(stores):
            return False
    return True


def lean_str(s: str) -> str:
    return '"' + s.replace('\\', '\\\\').replace('"', '\\"') + '"'


def extract() -> dict:
    decorators, sites, tables, repr_checked = scan()
    tree_flag, ctx_guarded = tree_flag_accumulation(), ctx_stores_guarded()
    id_pinned = all(d != 'id-raw' for d in decorators.values()) and all(d != 'id-raw' for _, d in tables)
    rows = lambda xs: '[\n' + ',\n'.join(f'  ({lean_str(a)}, {lean_str(b)})' for a, b in xs) + ']' if xs else '[]'
    text = ('/- GENERATED on every run by harness/extract/memo.py from the AST of beartype/**/*.py. Do not edit.\n'
            '   Disciplines: "eq" Python ==/hash; "id-raw" bare id() of objects that may die; "id-pinned" id() with the\n'
            '   keyed objects kept alive by the entry; "repr-raw" repr() with hits returned unvalidated; "repr-checked"\n'
            '   repr() with a hit validated by ==; "attr" stored on the object; "name" keyed by module/class names on\n'
            '   purpose; "fwdref" forward-reference referents; "unknown" not classifiable. -/\n'
            'namespace BearVerif.Extracted\n\n'
            '/-- memoising decorators and the key discipline their wrapper implements -/\n'
            f'def memoDecorators : List (String × String) := {rows(sorted(decorators.items()))}\n\n'
            '/-- functions decorated with a memoising decorator -/\n'
            f'def memoSites : List (String × String) := {rows(sites)}\n\n'
            '/-- module-level dictionary caches mutated at run time -/\n'
            f'def memoTables : List (String × String) := {rows(tables)}\n\n'
            f'def memoReprChecked : Bool := {"true" if repr_checked else "false"}\n'
            f'def memoIdPinned : Bool := {"true" if id_pinned else "false"}\n\n'
            '/-- how sanify_hint_child combines HintTreeCode.is_check_expr_cacheable with a child\'s flag: "and" | "last" | "unknown" -/\n'
            f'def memoTreeFlag : String := {lean_str(tree_flag)}\n'
            '/-- every store into _HINT_CONF_TO_CHECK_EXPR / the checker tables is guarded by an `if` on that flag -/\n'
            f'def memoCtxStoresGuarded : Bool := {"true" if ctx_guarded else "false"}\n\n'
            'end BearVerif.Extracted\n')
    write_if_changed(LEAN / 'BearVerif/Extracted/Memo.lean', text)
    return {'decorators': decorators, 'sites': sites, 'tables': tables, 'repr_checked': repr_checked, 'id_pinned': id_pinned,
            'tree_flag': tree_flag, 'ctx_stores_guarded': ctx_guarded}


if __name__ == '__main__':
    import json
    print(json.dumps(extract(), indent=1))
