"""Translator: beartype's sign sets of the one-argument container logics and mappings, the
origin class each sign is checked against, and the ABC/capability facts of those classes as
the RUNNING interpreter reports them -> lean/BearVerif/Extracted/BearTables.lean.

The Lean table theorems (Props/C10.lean: every sequence/reiterable/mapping origin has the
capabilities its generated code uses; every reiterable origin is a Collection) are re-decided
against this file on every run: adding, say, HintSignIterator to HINT_SIGNS_REITERABLE breaks them."""
import collections
import collections.abc as A
import typing as T

from ..common import LEAN, write_if_changed
from ..bear.world import Registry


def sample_hint(sign_name: str):
    """A hint carrying this sign (typing or collections.abc spelling)."""
    for mod in (T, A, collections):
        c = getattr(mod, sign_name, None)
        if c is not None:
            for args in ((int,), (str, int), (int, ...)):
                try:
                    return c[args if len(args) > 1 else args[0]]
                except TypeError:
                    continue
    return {'AbstractSet': A.Set[int], 'List': list[int], 'Tuple': tuple[int, ...], 'Set': set[int], 'FrozenSet': frozenset[int],
            'Dict': dict[str, int], 'Deque': collections.deque[int], 'DefaultDict': collections.defaultdict[str, int],
            'Pep484585TupleFixed': tuple[int, str], 'Pep646TupleFixedVariadic': None}.get(sign_name)


def origins_of(signs) -> list:
    from beartype._util.hint.pep.utilpepget import get_hint_pep_origin_type_isinstanceable
    out = []
    for s in sorted(signs, key=lambda s: s.name):
        h = sample_hint(s.name)
        if h is None:
            continue
        out.append((s.name, get_hint_pep_origin_type_isinstanceable(h)))
    return out


def extract():
    from beartype._data.hint.sign import datahintsignset as S
    reg = Registry()
    groups = {'seq': origins_of(S.HINT_SIGNS_SEQUENCE), 'reit': origins_of(S.HINT_SIGNS_REITERABLE),
              'quasi': origins_of(S.HINT_SIGNS_QUASIITERABLE), 'map': origins_of(S.HINT_SIGNS_MAPPING)}
    for g in groups.values():
        for _, c in g:
            reg.id(c)
    rows, sized, indexable, reiter, mapping = reg.world_sexp()

    def bits(s):
        return '[' + ', '.join('true' if ch == '1' else 'false' for ch in s) + ']'
    lines = ['/- GENERATED on every run by harness/extract/beartables.py from beartype/_data/hint/sign/datahintsignset.py,',
             '   the origin class of each sign, and issubclass/hasattr on the real classes. Do not edit. -/',
             'import BearVerif.Core.Bear', 'namespace BearVerif.Extracted', 'open BearVerif.Bear', '',
             '/-- class names, by class number -/',
             'def classNames : List String := [' + ', '.join(f'"{c.__module__}.{c.__qualname__}"' for c in reg.classes) + ']', '',
             'def subRows : List (List Bool) := [' + ',\n  '.join(bits(r) for r in rows) + ']',
             f'def sizedBits : List Bool := {bits(sized)}', f'def indexableBits : List Bool := {bits(indexable)}',
             f'def reiterBits : List Bool := {bits(reiter)}', f'def mappingBits : List Bool := {bits(mapping)}', '']
    for g, lst in groups.items():
        lines.append(f'/-- origin classes of the {g} signs: ' + ', '.join(f'{n}->{c.__name__}' for n, c in lst) + ' -/')
        lines.append(f'def {g}Origins : List Nat := [' + ', '.join(str(reg.id(c)) for _, c in lst) + ']')
    lines += ['', 'end BearVerif.Extracted', '']
    write_if_changed(LEAN / 'BearVerif/Extracted/BearTables.lean', '\n'.join(lines))
    return groups
