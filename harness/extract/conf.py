"""Translator: BeartypeConf's option table -> lean/BearVerif/Extracted/Conf.lean.

Read from the SOURCE TEXT (AST) of $VERIF_REPO/beartype/_conf:
  * confmain.py  `BeartypeConf.__new__`: the keyword-only parameters, the keys of `conf_kwargs = dict(...)`
                 in order (= order of the memo key), the deprecated-alias statements
                 `if OLD is not None: ...; NEW = OLD`
  * conftest.py  `die_if_conf_kwargs_invalid`: one validity kind per option, recognised from the condition of
                 each `if not <cond>: raise BeartypeConfParamException` (also inside the loops over the
                 `_ARG_NAMES_*` tuples); `default_conf_kwargs`: the `violation_type` test and the fallbacks
                 `if conf_kwargs[X] is None: conf_kwargs[X] = violation_type or CLS`
and from the imported data modules: the signature defaults, `ARG_VALUE_UNPASSED`,
`SHELL_VAR_CONF_IS_COLOR_VALUE_TO_OBJ`, the enumeration classes.

An unrecognised validator shape raises `ExtractError` (the check then keeps the last extracted table and
searches the real code for a failing input).
"""
from __future__ import annotations

import ast
import enum
import inspect

from ..common import LEAN, REPO, write_if_changed


class ExtractError(Exception):
    pass


def _func(tree, name, cls=None):
    for node in ast.walk(tree):
        if cls and isinstance(node, ast.ClassDef) and node.name == cls:
            for sub in node.body:
                if isinstance(sub, ast.FunctionDef) and sub.name == name:
                    return sub
        if not cls and isinstance(node, ast.FunctionDef) and node.name == name:
            return node
    raise ExtractError(f'function {name} not found')


class _Subst(ast.NodeTransformer):
    """conf_kwargs['name'] / conf_kwargs[loopvar] / plain alias variable -> V"""

    def __init__(self, loopvar=None, alias=None):
        self.loopvar, self.alias, self.names = loopvar, alias, set()

    def visit_Subscript(self, node):
        if isinstance(node.value, ast.Name) and node.value.id == 'conf_kwargs':
            if isinstance(node.slice, ast.Constant) and isinstance(node.slice.value, str):
                self.names.add(node.slice.value)
                return ast.Name('V', ast.Load())
            if isinstance(node.slice, ast.Name) and node.slice.id == self.loopvar:
                self.names.add('<loop>')
                return ast.Name('V', ast.Load())
        return self.generic_visit(node)

    def visit_Name(self, node):
        if self.alias and node.id == self.alias:
            self.names.add('<alias>')
            return ast.Name('V', ast.Load())
        return node


def _kind_of(cond: str, ns: dict):
    """validity kind of a recognised condition (text over the placeholder V)"""
    import re
    m = re.fullmatch(r'isinstance\(V, (\w+)\)', cond)
    if m:
        import builtins
        obj = ns.get(m.group(1), getattr(builtins, m.group(1), None))
        if obj is bool:
            return ('bool',)
        if isinstance(obj, type) and issubclass(obj, enum.Enum):
            return ('enum', obj)
        if getattr(obj, '__name__', '') == 'FrozenDict':
            return ('frozenDict',)
    if cond == 'isinstance(V, NoneTypeOr[bool])':
        return ('tristate',)
    m = re.fullmatch(r'isinstance\(V, CollectionABC\) and all\(\(isinstance\((\w+), str\) and is_identifier\(\1\) for \1 in V\)\)', cond)
    if m:
        return ('identColl',)
    if cond == 'is_type_subclass(V, Exception)':
        return ('excType',)
    if cond == 'V is None or is_type_subclass(V, Warning)':
        return ('optWarnType',)
    if cond == 'V is None or is_type_subclass(V, Exception)':
        return ('optExcType',)
    raise ExtractError(f'unrecognised validator condition: {cond}')


def read_table():
    import importlib
    confmain = importlib.import_module('beartype._conf.confmain')
    conftest = importlib.import_module('beartype._conf.conftest')
    src_main = (REPO / 'beartype/_conf/confmain.py').read_text()
    src_test = (REPO / 'beartype/_conf/conftest.py').read_text()
    if inspect.getsourcefile(confmain) != str(REPO / 'beartype/_conf/confmain.py'):
        raise ExtractError(f'beartype is imported from {inspect.getsourcefile(confmain)}, not from {REPO}')
    new = _func(ast.parse(src_main), '__new__', 'BeartypeConf')
    params = [a.arg for a in new.args.kwonlyargs]
    # conf_kwargs = dict(k=..., ...)
    order = None
    aliases = []
    for node in ast.walk(new):
        if isinstance(node, ast.Assign) and len(node.targets) == 1 and isinstance(node.targets[0], ast.Name) \
                and node.targets[0].id == 'conf_kwargs' and isinstance(node.value, ast.Call) \
                and isinstance(node.value.func, ast.Name) and node.value.func.id == 'dict':
            order = [k.arg for k in node.value.keywords]
            for k in node.value.keywords:
                if not (isinstance(k.value, ast.Name) and k.value.id == k.arg):
                    raise ExtractError(f'conf_kwargs[{k.arg}] is not the parameter of that name')
        if isinstance(node, ast.If) and isinstance(node.test, ast.Compare) and isinstance(node.test.left, ast.Name) \
                and len(node.test.ops) == 1 and isinstance(node.test.ops[0], ast.IsNot) \
                and isinstance(node.test.comparators[0], ast.Constant) and node.test.comparators[0].value is None \
                and node.test.left.id in params:
            old = node.test.left.id
            for st in node.body:
                if isinstance(st, ast.Assign) and isinstance(st.value, ast.Name) and st.value.id == old \
                        and isinstance(st.targets[0], ast.Name):
                    aliases.append((old, st.targets[0].id))
    if order is None:
        raise ExtractError('conf_kwargs = dict(...) not found in __new__')
    if sorted(order + [a for a, _ in aliases]) != sorted(params):
        raise ExtractError(f'parameters {params} are not options {order} + aliases {aliases}')

    ns = vars(conftest)
    kinds: dict = {}

    def record(name, kind):
        if name in kinds and kinds[name] != kind:
            raise ExtractError(f'two different validators for {name}')
        kinds[name] = kind

    def walk_ifs(stmts, loopvar=None, loopnames=None):
        for st in stmts:
            if isinstance(st, ast.For):
                if isinstance(st.iter, ast.Name) and st.iter.id in ns and isinstance(st.target, ast.Name):
                    walk_ifs(st.body, st.target.id, list(ns[st.iter.id]))
                elif 'is_object_hashable' in ast.unparse(st):
                    kinds['<hashable>'] = True      # the generic hashability loop
                else:
                    raise ExtractError(f'unrecognised loop in die_if_conf_kwargs_invalid: {ast.unparse(st)[:80]}')
            elif isinstance(st, ast.If):
                t = st.test
                if not (isinstance(t, ast.UnaryOp) and isinstance(t.op, ast.Not)):
                    raise ExtractError(f'validator test is not `not <cond>`: {ast.unparse(t)[:80]}')
                if not any(isinstance(x, ast.Raise) for x in st.body):
                    raise ExtractError('validator branch does not raise')
                sub = _Subst(loopvar)
                cond = ast.unparse(sub.visit(ast.parse(ast.unparse(t.operand), mode='eval').body))
                kind = _kind_of(cond, ns)
                if sub.names == {'<loop>'}:
                    for n in loopnames:
                        record(n, kind)
                elif len(sub.names) == 1:
                    record(next(iter(sub.names)), kind)
                else:
                    raise ExtractError(f'validator mentions {sub.names}')
                walk_ifs(st.orelse, loopvar, loopnames)
            elif isinstance(st, ast.Assert) or (isinstance(st, ast.Expr) and isinstance(st.value, ast.Constant)):
                pass  # docstring / assert
            else:
                raise ExtractError(f'unrecognised statement in die_if_conf_kwargs_invalid: {ast.unparse(st)[:80]}')
    walk_ifs(_func(ast.parse(src_test), 'die_if_conf_kwargs_invalid').body)

    # default_conf_kwargs
    fallbacks = []
    dflt = _func(ast.parse(src_test), 'default_conf_kwargs')
    alias_var = None
    for st in dflt.body:
        if isinstance(st, ast.Assert) or (isinstance(st, ast.Expr) and isinstance(st.value, ast.Constant)):
            continue
        if isinstance(st, ast.Assign) and isinstance(st.value, ast.Subscript) and ast.unparse(st.value) == "conf_kwargs['violation_type']":
            alias_var = st.targets[0].id
            continue
        if isinstance(st, ast.If):
            text = ast.unparse(st.test)
            if alias_var and text == f'{alias_var} is not None and (not is_type_subclass({alias_var}, Exception))':
                if not any(isinstance(x, ast.Raise) for x in st.body):
                    raise ExtractError('violation_type test does not raise')
                record('violation_type', ('optExcType',))
                continue
            import re
            m = re.fullmatch(r"conf_kwargs\['(\w+)'\] is None", text)
            if m and len(st.body) == 1 and isinstance(st.body[0], ast.Assign):
                m2 = re.fullmatch(rf"conf_kwargs\['{m.group(1)}'\] = {alias_var} or (\w+)", ast.unparse(st.body[0]))
                if m2 and m2.group(1) in ns:
                    fallbacks.append((m.group(1), ns[m2.group(1)]))
                    continue
        raise ExtractError(f'unrecognised statement in default_conf_kwargs: {ast.unparse(st)[:100]}')
    missing = [n for n in order if n not in kinds]
    if missing:
        raise ExtractError(f'no validator found for options {missing}')

    sig = inspect.signature(confmain.BeartypeConf.__new__)
    defaults = {n: sig.parameters[n].default for n in order}
    for a, _ in aliases:
        if sig.parameters[a].default is not None:
            raise ExtractError(f'deprecated parameter {a} does not default to None')
    from beartype._data.func.datafuncarg import ARG_VALUE_UNPASSED
    from beartype._data.os.dataosshell import SHELL_VAR_CONF_IS_COLOR_VALUE_TO_OBJ
    return {'order': order, 'kinds': kinds, 'defaults': defaults, 'aliases': aliases, 'fallbacks': fallbacks,
            'unpassed': ARG_VALUE_UNPASSED, 'color_env': dict(SHELL_VAR_CONF_IS_COLOR_VALUE_TO_OBJ),
            'hash_check': bool(kinds.get('<hashable>'))}


# ---------------------------------------------------------------------------
# printing `Val` / the table as Lean terms
# ---------------------------------------------------------------------------
def lean_str(s: str) -> str:
    return '"' + s.replace('\\', '\\\\').replace('"', '\\"') + '"'


def lean_val(v) -> str:
    """encoded value (harness.impl.c17conf.encode) -> Lean term of type `Val`"""
    b = lambda x: 'true' if x else 'false'   # noqa: E731
    if v == 'none':
        return '.none'
    tag = v[0]
    if tag == 'b':
        return f'.bool {b(v[1])}'
    if tag == 'n':
        return f'.num .{v[1]} ({v[2]})'
    if tag == 'e':
        return f'.enum {v[1]} {v[2]}'
    if tag == 'ie':
        return f'.intEnum {v[1]} ({v[2]})'
    if tag == 'c':
        return f'.cls {v[1]} {b(v[2])} {b(v[3])}'
    if tag == 'k':
        items = ', '.join(f'.str {lean_str(i[1])} {b(i[2])}' if i[0] == 's' else f'.other {i[1]}' for i in v[2])
        return f'.coll .{v[1]} [{items}]'
    if tag == 'fd':
        ov = lambda o: f'.{o}' if isinstance(o, str) else f'(.other {o[1]})'   # noqa: E731
        return f'.fdict {ov(v[1])} {ov(v[2])} {v[3]} {b(v[4])} {b(v[5])}'
    if tag == 'd':
        return f'.dict {v[1]} {b(v[2])}'
    if tag == 'o':
        return f'.obj {v[1]}'
    raise ExtractError(f'cannot print {v!r}')


def extract() -> dict:
    from ..impl.c17conf import encode, world
    tb = read_table()
    w = world()

    def kind(k):
        if k[0] == 'enum':
            return f'.enum {w.enums.index(k[1])}'
        return '.' + k[0]
    opts = ',\n    '.join(f'⟨{lean_str(n)}, {kind(tb["kinds"][n])}, {lean_val(encode(tb["defaults"][n]))}⟩' for n in tb['order'])
    aliases = ', '.join(f'({lean_str(a)}, {lean_str(b)})' for a, b in tb['aliases'])
    fallbacks = ', '.join(f'({lean_str(n)}, {lean_val(encode(c))})' for n, c in tb['fallbacks'])
    color = ', '.join(f'({lean_str(k)}, {lean_val(encode(v))})' for k, v in tb['color_env'].items())
    enums = ', '.join(lean_str(e.__name__) for e in w.enums[:3])
    text = ('import BearVerif.Core.Conf\n'
            '/- GENERATED on every run by harness/extract/conf.py from beartype/_conf/confmain.py (BeartypeConf.__new__),\n'
            '   beartype/_conf/conftest.py (die_if_conf_kwargs_invalid, default_conf_kwargs), ARG_VALUE_UNPASSED and\n'
            '   SHELL_VAR_CONF_IS_COLOR_VALUE_TO_OBJ. Do not edit. -/\n'
            'namespace BearVerif.Extracted\nopen BearVerif.Conf\n\n'
            f'/-- enumeration classes behind `Kind.enum i` / `Val.enum i _` / `Val.intEnum i _` -/\n'
            f'def confEnumClasses : List String := [{enums}]\n\n'
            f'/-- does `die_if_conf_kwargs_invalid` end with the generic hashability test? -/\n'
            f'def confHashCheck : Bool := {"true" if tb["hash_check"] else "false"}\n\n'
            'def confTable : Table where\n'
            f'  opts := [\n    {opts}]\n'
            f'  aliases := [{aliases}]\n'
            f'  fallbacks := [{fallbacks}]\n'
            f'  unpassed := {lean_val(encode(tb["unpassed"]))}\n'
            f'  colorEnv := [{color}]\n'
            f'  warnDefault := {lean_val(encode(tb["defaults"]["warning_cls_on_decorator_exception"]))}\n\n'
            'end BearVerif.Extracted\n')
    write_if_changed(LEAN / 'BearVerif/Extracted/Conf.lean', text)
    return tb


def read_last() -> dict:
    """the table of the last successful extraction, read back from Extracted/Conf.lean"""
    import re
    from ..impl.c17conf import world
    w = world()
    text = (LEAN / 'BearVerif/Extracted/Conf.lean').read_text()
    order, kinds = [], {}
    for m in re.finditer(r'⟨"(\w+)", \.(\w+)(?: (\d+))?, ', text):
        order.append(m.group(1))
        kinds[m.group(1)] = ('enum', w.enums[int(m.group(3))]) if m.group(2) == 'enum' else (m.group(2),)
    aliases = re.findall(r'\("(\w+)", "(\w+)"\)', text.split('aliases :=')[1].split('\n')[0])
    fallbacks = [(n, w.classes[int(i)]) for n, i in re.findall(r'\("(\w+)", \.cls (\d+) ', text.split('fallbacks :=')[1].split('\n')[0])]
    return {'order': order, 'kinds': kinds, 'aliases': aliases, 'fallbacks': fallbacks,
            'hash_check': 'confHashCheck : Bool := true' in text, 'unpassed': w.unpassed}
