"""Translators: /repo source -> lean/BearVerif/Extracted/*.lean (rewritten only when the content changes)."""


def extract_all():
    from . import claw
    claw.extract()
    from . import beartables
    beartables.extract()
    from . import gen
    gen.extract()
    from . import pyc
    pyc.extract()
    from . import conc
    conc.extract()
    from . import memo
    memo.extract()
    from . import infer
    infer.extract()
    from . import roar
    roar.extract()
    from . import conf
    try:
        conf.extract()
    except conf.ExtractError:
        pass      # c17 falls back to the last good table and reports what differs
