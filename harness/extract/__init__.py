"""Translators: /repo source -> lean/BearVerif/Extracted/*.lean (rewritten only when the content changes)."""


def extract_all():
    from . import claw
    claw.extract()
    from . import gen
    gen.extract()
    from . import pyc
    pyc.extract()
