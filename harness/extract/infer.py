"""Translator: the tables of beartype.bite (type-hint inference) -> Extracted/Infer.lean.

Read from the modules of $VERIF_REPO as data (the objects the code itself consults):
  * the collections.abc finite state machine  (infercollectionsabc.get_finite_state_machine():
    node = hint factory + ordered transitions {required method names -> node});
  * the builtin collection type -> hint factory table (infercollectionbuiltin);
  * BUILTIN_TYPES_SCALAR, _ROOT_TUPLE_FIXED_ITEMS_LEN_MAX.
Classes are written by qualified name; the driver resolves them against the class table
the harness sends with every request."""
from __future__ import annotations

import hashlib

from ..common import LEAN, write_if_changed


def qual(c) -> str:
    return f'{c.__module__}.{c.__qualname__}'


def tables() -> dict:
    from beartype._data.py.databuiltins import BUILTIN_TYPES_SCALAR
    from beartype.bite.collection import infercollectionbuiltin as B
    from beartype.bite.collection import infercollectionitems as IT
    from beartype.bite.collection import infercollectionsabc as S

    def node(n):
        return {'factory': None if n.hint_factory is None else qual(n.hint_factory),
                'factory_obj': n.hint_factory,
                'next': [(sorted(k), node(v)) for k, v in n.nodes_next.items()]}
    return {
        'fsm': node(S.get_finite_state_machine()),
        'builtin': [(qual(k), qual(v)) for k, v in B._COLLECTION_BUILTIN_TYPE_TO_HINT_FACTORY.items()],
        'builtin_objs': [(k, v) for k, v in B._COLLECTION_BUILTIN_TYPE_TO_HINT_FACTORY.items()],
        'scalars': sorted(qual(c) for c in BUILTIN_TYPES_SCALAR),
        'scalar_objs': list(BUILTIN_TYPES_SCALAR),
        'tuple_max': int(IT._ROOT_TUPLE_FIXED_ITEMS_LEN_MAX),
    }


def vocabulary(fsm: dict) -> list[str]:
    out = set()
    for k, n in fsm['next']:
        out |= set(k) | set(vocabulary(n))
    return sorted(out)


def factories(fsm: dict) -> list:
    out = [] if fsm['factory_obj'] is None else [fsm['factory_obj']]
    for _, n in fsm['next']:
        out += factories(n)
    return out


def _s(x: str) -> str:
    assert '"' not in x and '\\' not in x, x
    return '"' + x + '"'


def _node(n: dict, ind: int) -> str:
    pad = ' ' * ind
    f = 'none' if n['factory'] is None else f'(some {_s(n["factory"])})'
    if not n['next']:
        return f'.mk {f} []'
    rows = [f'{pad}  ([{", ".join(_s(m) for m in k)}], {_node(v, ind + 4)})' for k, v in n['next']]
    return f'.mk {f} [\n' + ',\n'.join(rows) + ']'


def fingerprint(t: dict) -> str:
    """Identity of the extracted tables; the compiled Lean module reports it back (driver request
    `tables`), so a stale build artifact of Extracted/Infer.lean cannot go unnoticed."""
    def plain(n):
        return [n['factory'], [(k, plain(v)) for k, v in n['next']]]
    return hashlib.sha1(repr([plain(t['fsm']), t['builtin'], t['scalars'], t['tuple_max']]).encode()).hexdigest()[:16]


def extract() -> dict:
    t = tables()
    t['fingerprint'] = fingerprint(t)
    text = ('/- GENERATED on every run by harness/extract/infer.py from beartype/bite/collection/infercollectionsabc.py\n'
            '   (get_finite_state_machine), infercollectionbuiltin.py (_COLLECTION_BUILTIN_TYPE_TO_HINT_FACTORY),\n'
            '   infercollectionitems.py (_ROOT_TUPLE_FIXED_ITEMS_LEN_MAX), _data/py/databuiltins.py (BUILTIN_TYPES_SCALAR).\n'
            '   Do not edit. -/\n'
            'import BearVerif.Core.Infer\n'
            'namespace BearVerif.Extracted\nopen BearVerif.Infer\n\n'
            '/-- the collections.abc finite state machine (transition order = dict order of the source) -/\n'
            'def inferFsm : FsmNode :=\n  ' + _node(t['fsm'], 2) + '\n\n'
            '/-- builtin collection type -> hint factory -/\n'
            'def inferBuiltinTable : List (String × String) := [\n  ' +
            ',\n  '.join(f'({_s(a)}, {_s(b)})' for a, b in t['builtin']) + ']\n\n'
            'def inferScalars : List String := [' + ', '.join(_s(x) for x in t['scalars']) + ']\n\n'
            f'def inferRootTupleMax : Nat := {t["tuple_max"]}\n\n'
            '/-- identity of these tables (reported back by the driver: guards against stale build artifacts) -/\n'
            f'def inferFingerprint : String := "{t["fingerprint"]}"\n\n'
            'end BearVerif.Extracted\n')
    write_if_changed(LEAN / 'BearVerif/Extracted/Infer.lean', text)
    return t
