"""Translator for C11: beartype's exception/warning algebra and its raise sites -> Extracted/Roar.lean.

Everything is read from the SOURCE TEXT (CPython `ast`), nothing is imported:

* class hierarchy of beartype/roar/_roarexc.py and beartype/roar/_roarwarn.py: per class its name, its base classes
  (as indices into the same table, or a *foreign* base such as `Exception` / `UserWarning` / `DeprecationWarning`),
  and whether beartype/roar/__init__.py re-exports it;
* every `raise X(...)` statement of every module under beartype/: file, enclosing function, the raised class and how it
  is named (`roar` = a class of the table, `param` = the enclosing function's `exception_cls`-style parameter, whose
  DEFAULT is recorded, `builtin` = a builtin exception named literally, `other`), whether the statement is lexically inside
  a `try` whose handler calls `reraise_exception_placeholder`, and whether the raised message mentions
  EXCEPTION_PLACEHOLDER (such a message is only fit for users after that handler substituted it);
* every `warn(..., X)` / `issue_warning(cls=X, …)` statement naming a class literally;
* every explicit `exception_cls=X` keyword at a call site (the classes the hint utilities are told to raise);
* every executed mention of EXCEPTION_PLACEHOLDER inside a function (file, function, lexically under such a handler) and the
  functions that own such a handler;
* the family each public entry point documents (door functions: from the `Raises` sections of their docstrings).
"""
from __future__ import annotations

import ast
import builtins

from ..common import LEAN, REPO, write_if_changed

EXC_PARAM_NAMES = ('exception_cls',)
BUILTIN_EXC = {n for n in dir(builtins) if isinstance(getattr(builtins, n), type) and issubclass(getattr(builtins, n), BaseException)}


def _classes(path):
    out = []
    for node in ast.parse((REPO / path).read_text()).body:
        if isinstance(node, ast.ClassDef):
            out.append((node.name, [ast.unparse(b) for b in node.bases]))
    return out


def _exported() -> set[str]:
    names = set()
    for node in ast.parse((REPO / 'beartype/roar/__init__.py').read_text()).body:
        if isinstance(node, ast.ImportFrom) and node.module and node.module.startswith('beartype.roar.'):
            names |= {a.asname or a.name for a in node.names}
    return names


def hierarchy():
    """[(name, [base names], exported)] for exceptions and warnings (definition order)."""
    ex = _exported()
    exc = [(n, b, n in ex) for n, b in _classes('beartype/roar/_roarexc.py')]
    wrn = [(n, b, n in ex) for n, b in _classes('beartype/roar/_roarwarn.py')]
    return exc, wrn


def _parents(tree):
    for n in ast.walk(tree):
        for c in ast.iter_child_nodes(n):
            c._p = n


def _enclosing(node):
    """(innermost enclosing function node or None, lexically inside a try-body whose handler reraises with placeholder)"""
    func, wrapped, p = None, False, node
    while hasattr(p, '_p'):
        q = p._p
        if isinstance(q, ast.Try) and any(p is s for s in q.body):
            for h in q.handlers:
                if any(isinstance(c, ast.Call) and isinstance(c.func, ast.Name) and c.func.id == 'reraise_exception_placeholder'
                       for c in ast.walk(h)):
                    wrapped = True
        if isinstance(q, (ast.FunctionDef, ast.AsyncFunctionDef)):
            if func is None:
                func = q
            else:
                pass
        p = q
    return func, wrapped


def _param_default(func, name):
    """source text of the default of parameter `name` of `func` ('' when it has none)"""
    if func is None:
        return ''
    a = func.args
    pos = a.posonlyargs + a.args
    for arg, d in zip(pos[len(pos) - len(a.defaults):], a.defaults):
        if arg.arg == name:
            return ast.unparse(d)
    for arg, d in zip(a.kwonlyargs, a.kw_defaults):
        if arg.arg == name and d is not None:
            return ast.unparse(d)
    return ''


def sites(all_names: set[str]):
    """(raise sites, warn sites, exception_cls keyword sites) over beartype/**/*.py"""
    raises, warns, kws, uses, handlers = [], [], [], [], []
    for f in sorted((REPO / 'beartype').rglob('*.py')):
        rel = str(f.relative_to(REPO))
        tree = ast.parse(f.read_text())
        _parents(tree)
        for n in ast.walk(tree):
            if isinstance(n, ast.Raise) and isinstance(n.exc, ast.Call):
                fn = n.exc.func
                name = fn.id if isinstance(fn, ast.Name) else ast.unparse(fn)
                func, wrapped = _enclosing(n)
                default = ''
                if name in all_names:
                    kind = 'roar'
                elif name in BUILTIN_EXC:
                    kind = 'builtin'
                elif isinstance(fn, ast.Name) and func is not None and name in [a.arg for a in func.args.posonlyargs + func.args.args + func.args.kwonlyargs]:
                    kind = 'param'
                    default = _param_default(func, name)
                else:
                    kind = 'other'
                ph = any(isinstance(c, ast.Name) and c.id == 'EXCEPTION_PLACEHOLDER' for a in n.exc.args for c in ast.walk(a))
                raises.append((rel, func.name if func else '<module>', name, kind, default, wrapped, ph, n.lineno))
            elif isinstance(n, ast.Call):
                callee = n.func.id if isinstance(n.func, ast.Name) else (n.func.attr if isinstance(n.func, ast.Attribute) else '')
                func, _ = _enclosing(n)
                fname = func.name if func else '<module>'
                if callee in ('warn', 'issue_warning', 'warn_explicit'):
                    cands = [k.value for k in n.keywords if k.arg in ('cls', 'category', 'warning_cls')] + \
                        (n.args[1:2] if callee in ('warn', 'issue_warning') else [])
                    for c in cands:
                        if isinstance(c, ast.Name):
                            warns.append((rel, fname, c.id, n.lineno))
                for k in n.keywords:
                    if k.arg in EXC_PARAM_NAMES and isinstance(k.value, ast.Name) and k.value.id not in EXC_PARAM_NAMES:
                        kws.append((rel, fname, callee, k.value.id, n.lineno))
                if callee == 'reraise_exception_placeholder' and fname != 'reraise_exception_placeholder':
                    p, in_handler = n, False
                    while hasattr(p, '_p'):
                        in_handler = in_handler or isinstance(p, ast.ExceptHandler)
                        p = p._p
                    if in_handler and (rel, fname) not in handlers:
                        handlers.append((rel, fname))
            elif isinstance(n, ast.Name) and n.id == 'EXCEPTION_PLACEHOLDER' and isinstance(n.ctx, ast.Load):
                p, in_default = n, False
                while hasattr(p, '_p'):
                    in_default = in_default or isinstance(p, ast.arguments)
                    p = p._p
                func, wrapped = _enclosing(n)
                if func is not None and not in_default:
                    uses.append((rel, func.name, wrapped, n.lineno))
    return raises, warns, kws, uses, handlers


def door_documented():
    """classes named `beartype.roar.X` in the `Raises` sections of is_bearable / die_if_unbearable (doorfunc.py)"""
    out = {}
    for node in ast.parse((REPO / 'beartype/door/_func/doorfunc.py').read_text()).body:
        if isinstance(node, ast.FunctionDef) and node.name in ('is_bearable', 'die_if_unbearable'):
            doc = ast.get_docstring(node) or ''
            sec = doc.split('Raises', 1)[1] if 'Raises' in doc else ''
            sec = sec.split('Examples', 1)[0]
            import re
            out[node.name] = sorted(set(re.findall(r'beartype\.roar\.(\w+)', sec)))
    return out


def _s(x: str) -> str:
    return '"' + x.replace('\\', '\\\\').replace('"', '\\"') + '"'


def _b(x: bool) -> str:
    return 'true' if x else 'false'


FOREIGN = {'Exception': 0, 'UserWarning': 1, 'DeprecationWarning': 2}
ANCHORS = [  # field of Core/Roar.lean::Anchors, table, class name
    ('exception', 'exc', 'BeartypeException'), ('callException', 'exc', 'BeartypeCallException'),
    ('decorException', 'exc', 'BeartypeDecorException'), ('hintViolation', 'exc', 'BeartypeHintViolation'),
    ('decorHintViolation', 'exc', 'BeartypeDecorHintViolation'), ('callHintViolation', 'exc', 'BeartypeCallHintViolation'),
    ('doorHintViolation', 'exc', 'BeartypeDoorHintViolation'), ('doorException', 'exc', 'BeartypeDoorException'),
    ('valeException', 'exc', 'BeartypeValeException'), ('confException', 'exc', 'BeartypeConfException'),
    ('decorHintException', 'exc', 'BeartypeDecorHintException'), ('callHintException', 'exc', 'BeartypeCallHintException'),
    ('nonpep', 'exc', 'BeartypeDecorHintNonpepException'), ('pepUnsupported', 'exc', 'BeartypeDecorHintPepUnsupportedException'),
    ('pep484', 'exc', 'BeartypeDecorHintPep484Exception'), ('mixin', 'exc', '_BeartypeHintForwardRefExceptionMixin'),
    ('pepRaise', 'exc', '_BeartypeCallHintPepRaiseException'), ('callFwdRefStr', 'exc', 'BeartypeCallHintPep484ForwardRefStrException'),
    ('warning', 'warn', 'BeartypeWarning')]


def _table(rows, names):
    idx = {n: i for i, n in enumerate(names)}
    lines = []
    anc: list[list[int]] = []
    for i, (n, bases, exp) in enumerate(rows):
        own = [idx[b] for b in bases if b in idx]
        foreign = [FOREIGN.get(b, 9) for b in bases if b not in idx]
        a = [i]
        for b in own:                      # closure certificate (checked by Table.wf in Lean)
            for x in (anc[b] if b < i else [b]):
                if x not in a:
                    a.append(x)
        anc.append(a)
        lines.append(f'  ⟨{_s(n)}, {ord(n[0])}, [{", ".join(map(str, own))}], [{", ".join(map(str, foreign))}], {_b(exp)}, '
                     f'[{", ".join(map(str, a))}]⟩')
    return '[\n' + ',\n'.join(lines) + ']'


def _opt(i):
    return 'none' if i is None else f'(some {i})'


def extract():
    exc, wrn = hierarchy()
    enames = [n for n, _, _ in exc]
    wnames = [n for n, _, _ in wrn]
    eidx = {n: i for i, n in enumerate(enames)}
    widx = {n: i for i, n in enumerate(wnames)}
    raises, warns, kws, uses, handlers = sites(set(enames) | set(wnames))
    door = door_documented()

    def raised(name, kind, default):
        if kind == 'roar':
            return f'.roar {eidx[name]}' if name in eidx else '.other'
        if kind == 'param':
            return '.param none' if default == '' else (f'.param (some {eidx[default]})' if default in eidx else '.paramForeign')
        return '.' + kind

    def warned(name):
        if name in widx:
            return f'.warn {widx[name]}'
        return {'warning_cls': '.param', 'DeprecationWarning': '.deprecation'}.get(name, '.other')

    anchors = ', '.join(f'{fld} := {(eidx if tbl == "exc" else widx).get(name, len(exc) + len(wrn))}' for fld, tbl, name in ANCHORS)
    text = ['import BearVerif.Core.Roar',
            '/- GENERATED on every run by harness/extract/roar.py from beartype/roar/_roarexc.py, _roarwarn.py, __init__.py',
            '   and an AST scan of every `raise`/`warn` statement under beartype/. Do not edit. -/',
            'namespace BearVerif.Extracted', 'open BearVerif.Roar', '',
            '/-- exception classes: name, first character, bases inside the table (indices), foreign bases (0 Exception,',
            '    1 UserWarning, 2 DeprecationWarning, 9 other), re-exported by beartype.roar, ancestor certificate -/',
            'def roarExc : Table := ' + _table(exc, enames), '',
            'def roarWarn : Table := ' + _table(wrn, wnames), '',
            '/-- indices of the classes the theorems name (`C11_anchors` ties them to the names) -/',
            'def roarAnchors : Anchors := { ' + anchors + ' }', '',
            'def roarAnchorNames : List String := [' + ', '.join(_s(n) for _, _, n in ANCHORS) + ']', '',
            '/-- `raise X(…)` statements: file, function, class as written, what it denotes, inside a try whose handler',
            '    calls reraise_exception_placeholder, message mentions EXCEPTION_PLACEHOLDER -/',
            'def roarRaiseSites : List RaiseSite := [']
    text.append(',\n'.join(
        f'  ⟨{_s(f)}, {_s(fn)}, {_s(c)}, {raised(c, k, d)}, {_b(w)}, {_b(ph)}⟩' for f, fn, c, k, d, w, ph, _ in raises) + ']')
    text += ['', '/-- warnings issued with a literally named class: file, function, class as written, what it denotes -/',
             'def roarWarnSites : List (String × String × String × Warned) := [' +
             ',\n  '.join(f'({_s(f)}, {_s(fn)}, {_s(c)}, {warned(c)})' for f, fn, c, _ in warns) + ']', '',
             '/-- explicit `exception_cls=X` keywords: file, function, callee, class as written, its index -/',
             'def roarExcKeywords : List (String × String × String × String × Option Nat) := [' +
             ',\n  '.join(f'({_s(f)}, {_s(fn)}, {_s(cal)}, {_s(c)}, {_opt(eidx.get(c))})' for f, fn, cal, c, _ in kws) + ']', '',
             '/-- executed mentions of EXCEPTION_PLACEHOLDER: file, function, lexically under a reraise handler -/',
             'def roarPlaceholderUses : List (String × String × Bool) := [' +
             ',\n  '.join(f'({_s(f)}, {_s(fn)}, {_b(w)})' for f, fn, w, _ in uses) + ']', '',
             '/-- functions owning an `except … : reraise_exception_placeholder(…)` handler -/',
             'def roarReraiseHandlers : List (String × String) := [' +
             ', '.join(f'({_s(f)}, {_s(fn)})' for f, fn in handlers) + ']', '',
             '/-- classes documented in the `Raises` sections of the door functions (function, class, its index) -/',
             'def roarDoorDocumented : List (String × String × Option Nat) := [' +
             ', '.join(f'({_s(k)}, {_s(c)}, {_opt(eidx.get(c))})' for k, v in sorted(door.items()) for c in v) + ']', '',
             'end BearVerif.Extracted', '']
    write_if_changed(LEAN / 'BearVerif/Extracted/Roar.lean', '\n'.join(text))
    return {'exc': exc, 'warn': wrn, 'raises': raises, 'warns': warns, 'kws': kws, 'door': door, 'uses': uses, 'handlers': handlers}
