"""Translator: lock skeletons of beartype's synchronised regions -> lean/BearVerif/Extracted/Conc.lean.

Read from the source text (AST) of $VERIF_REPO on every run. For every REGION (a public operation or a method of a
shared singleton) the skeleton is the source-ordered list of
    acq L / rel L      entering / leaving `with <expr whose last identifier contains "lock">:`
    rd V / wr V        an access to a SHARED name
    call F             a call of a callable received as parameter / stored in `self` (opaque to the translator)
where calls of beartype functions that can be resolved statically (same module, `from beartype… import f` at module
or function level, re-exports followed) are inlined (depth <= 6), both branches of every conditional are kept in
source order (a "may access" over-approximation) and `return` inside a `with` still leaves the block.

SHARED names: module-level globals bound to a container display / constructor call (also when imported from another
beartype module, also inside a function), `sys.path_hooks`/`path_importer_cache`, `claw_state.<attr>`, `self.<attr>`
of the shared singleton classes (`KeyPool`, `CacheUnboundedStrong`), closure dictionaries of the memoising decorators.
Local names assigned from an expression rooted in a shared name are aliases of it; `self.x = self.y.<method>`
in `__init__` makes `self.x(...)` an access of `y` (a write for `__setitem__`).
A write is: a store/delete through an attribute or subscript rooted in the shared name, an augmented assignment, or
a call of a mutating method (pop, append, clear, __setitem__, insert, remove, update, ...).

Locks: every module-level `<name> = Lock()/RLock()` and every `self.<attr> = Lock()/RLock()/<lock_type param>()`;
lock INSTANCES: module-level `<name> = KeyPool(...)/CacheUnboundedStrong(...)` with the lock type they are built with.
"""
from __future__ import annotations

import ast
from pathlib import Path

from ..common import LEAN, REPO, write_if_changed

MUTATORS = {'pop', 'append', 'clear', '__setitem__', '__delitem__', 'insert', 'remove', 'update', 'extend', 'add',
            'discard', 'popitem', 'setdefault', 'sort', 'reverse'}
STD_SHARED = {'path_hooks': 'sys.path_hooks', 'path_importer_cache': 'sys.path_importer_cache'}
SINGLETON_CLASSES = {'KeyPool', 'CacheUnboundedStrong'}

# (region name, file, qualified function, kind) — kind: 'locked' regions must satisfy WellLocked/AtomicOp;
# 'memo' regions are the deliberately lock-free memo sites (C15_memo_benign applies)
REGIONS = [
    ('KeyPool.acquire', 'beartype/_util/cache/pool/utilcachepool.py', 'KeyPool.acquire', 'locked'),
    ('KeyPool.release', 'beartype/_util/cache/pool/utilcachepool.py', 'KeyPool.release', 'locked'),
    ('CacheUnboundedStrong.cache_or_get_cached_value', 'beartype/_util/cache/map/utilmapunbounded.py',
     'CacheUnboundedStrong.cache_or_get_cached_value', 'locked'),
    ('CacheUnboundedStrong.cache_or_get_cached_func_return_passed_arg', 'beartype/_util/cache/map/utilmapunbounded.py',
     'CacheUnboundedStrong.cache_or_get_cached_func_return_passed_arg', 'locked'),
    ('CacheUnboundedStrong.clear', 'beartype/_util/cache/map/utilmapunbounded.py', 'CacheUnboundedStrong.clear', 'locked'),
    ('BeartypeConf.__new__', 'beartype/_conf/confmain.py', 'BeartypeConf.__new__', 'locked'),
    ('hook_packages', 'beartype/claw/_package/clawpkgmain.py', 'hook_packages', 'locked'),
    ('get_package_conf_or_none', 'beartype/claw/_package/clawpkgtrie.py', 'get_package_conf_or_none', 'locked'),
    ('beartyping.enter', 'beartype/claw/_package/clawpkgcontext.py', 'beartyping', 'locked'),
    ('beartyping.exit', 'beartype/claw/_package/clawpkgcontext.py', 'beartyping', 'locked'),
    ('callable_cached', 'beartype/_util/cache/utilcachecall.py', 'callable_cached._callable_cached', 'memo'),
    ('method_cached_arg_by_id', 'beartype/_util/cache/utilcachecall.py', 'method_cached_arg_by_id._method_cached', 'memo'),
    ('beartype_conf_decorator', 'beartype/_decor/decorcache.py', 'beartype', 'memo'),
]


# ---------------------------------------------------------------------------
# module model
# ---------------------------------------------------------------------------
class Mod:
    _cache: dict = {}

    def __init__(self, path: Path):
        self.path = path
        self.tree = ast.parse(path.read_text())
        self.funcs: dict[str, ast.FunctionDef] = {}
        self.classes: dict[str, ast.ClassDef] = {}
        self.imports: dict[str, tuple[str, str]] = {}       # local name -> (module, original name)
        self.shared_globals: set[str] = set()
        self.locks: dict[str, bool] = {}                      # module-level lock name -> reentrant
        self.instances: dict[str, tuple[str, str | None]] = {}  # global -> (class, lock_type kw)
        for node in self.tree.body:
            if isinstance(node, (ast.FunctionDef, ast.AsyncFunctionDef)):
                self.funcs[node.name] = node
            elif isinstance(node, ast.ClassDef):
                self.classes[node.name] = node
            elif isinstance(node, ast.ImportFrom) and node.module:
                for a in node.names:
                    self.imports[a.asname or a.name] = (node.module, a.name)
            elif isinstance(node, (ast.Assign, ast.AnnAssign)):
                tg = node.targets if isinstance(node, ast.Assign) else [node.target]
                val = node.value
                for t in tg:
                    if not isinstance(t, ast.Name) or val is None:
                        continue
                    if isinstance(val, ast.Call) and _last(val.func) in ('Lock', 'RLock'):
                        self.locks[t.id] = _last(val.func) == 'RLock'
                    elif isinstance(val, (ast.Dict, ast.List, ast.Set, ast.DictComp, ast.ListComp)):
                        self.shared_globals.add(t.id)
                    elif isinstance(val, ast.Call):
                        self.shared_globals.add(t.id)
                        cls = _last(val.func)
                        if cls in SINGLETON_CLASSES:
                            lt = next((_last(k.value) for k in val.keywords if k.arg == 'lock_type'), None)
                            self.instances[t.id] = (cls, lt)

    @classmethod
    def of_path(cls, path: Path) -> 'Mod':
        path = path.resolve()
        if path not in cls._cache:
            cls._cache[path] = Mod(path)
        return cls._cache[path]

    @classmethod
    def of_name(cls, modname: str):
        if not modname.startswith('beartype'):
            return None
        base = REPO / modname.replace('.', '/')
        for p in (base.with_suffix('.py'), base / '__init__.py'):
            if p.exists():
                return cls.of_path(p)
        return None


def _last(node):
    if isinstance(node, ast.Name):
        return node.id
    if isinstance(node, ast.Attribute):
        return node.attr
    return None


def resolve(mod: Mod, name: str, fimports: dict, depth=0):
    """-> ('func', Mod, FunctionDef) | ('shared', var name) | ('lock', name, reentrant) | None"""
    if depth > 6:
        return None
    if name in fimports or name in mod.imports:
        src, orig = fimports.get(name) or mod.imports[name]
        if src == 'sys' and orig in STD_SHARED:
            return ('shared', STD_SHARED[orig])
        m2 = Mod.of_name(src)
        if m2 is None:
            return None
        return resolve(m2, orig, {}, depth + 1)
    if name in mod.funcs:
        return ('func', mod, mod.funcs[name])
    if name in mod.locks:
        return ('lock', name, mod.locks[name])
    if name in mod.shared_globals:
        return ('shared', name)
    return None


# ---------------------------------------------------------------------------
# skeleton of one function
# ---------------------------------------------------------------------------
class Skel(ast.NodeVisitor):
    def __init__(self, mod: Mod, fn, cls: str | None, closure_shared: dict | None, stack: tuple, out: list, locks_seen: dict,
                 do_inline: bool = True):
        self.do_inline = do_inline
        self.mod, self.fn, self.cls = mod, fn, cls
        self.out = out
        self.stack = stack
        self.locks_seen = locks_seen
        self.alias: dict[str, str] = dict(closure_shared or {})     # local name -> shared var
        self.attr_alias: dict[str, tuple[str, str]] = {}           # self attr -> (attr, method)
        self.fimports: dict[str, tuple[str, str]] = {}
        self.params = {a.arg for a in fn.args.args + fn.args.kwonlyargs + fn.args.posonlyargs}
        if cls and cls in mod.classes:
            init = next((n for n in mod.classes[cls].body if isinstance(n, ast.FunctionDef) and n.name == '__init__'), None)
            if init is not None:
                for st in ast.walk(init):
                    if isinstance(st, (ast.Assign, ast.AnnAssign)):
                        tg = st.targets[0] if isinstance(st, ast.Assign) else st.target
                        v = st.value
                        if isinstance(tg, ast.Attribute) and isinstance(tg.value, ast.Name) and tg.value.id == 'self' \
                                and isinstance(v, ast.Attribute) and isinstance(v.value, ast.Attribute) \
                                and isinstance(v.value.value, ast.Name) and v.value.value.id == 'self':
                            self.attr_alias[tg.attr] = (v.value.attr, v.attr)
                        if isinstance(tg, ast.Attribute) and isinstance(tg.value, ast.Name) and tg.value.id == 'self' \
                                and isinstance(v, ast.Call) and 'lock' in tg.attr.lower():
                            f = _last(v.func)
                            self.locks_seen.setdefault(f'{cls}.{tg.attr}', f == 'RLock')

    # -- shared-name resolution -------------------------------------------
    def root_var(self, node):
        """shared variable an expression is rooted in, or None"""
        chain = []
        while True:
            if isinstance(node, ast.Attribute):
                chain.append(node.attr)
                node = node.value
            elif isinstance(node, ast.Subscript):
                node = node.value
            elif isinstance(node, ast.Call):
                node = node.func
            else:
                break
        if not isinstance(node, ast.Name):
            return None
        chain.reverse()
        if node.id == 'self' and self.cls in SINGLETON_CLASSES:
            if not chain:
                return None
            a = chain[0]
            if 'lock' in a.lower():
                return None
            if a in self.attr_alias:
                a = self.attr_alias[a][0]
            return f'{self.cls}.{a}'
        if node.id in self.alias:
            return self.alias[node.id]
        if node.id in self.params:
            return None
        r = resolve(self.mod, node.id, self.fimports)
        if r and r[0] == 'shared':
            v = r[1]
            if v == 'claw_state' and chain:
                return f'claw_state.{chain[0]}'
            return v
        return None

    def lock_of(self, node):
        nm = _last(node)
        if nm is None or 'lock' not in nm.lower():
            return None
        if isinstance(node, ast.Attribute) and isinstance(node.value, ast.Name) and node.value.id == 'self' and self.cls:
            return f'{self.cls}.{nm}'
        r = resolve(self.mod, nm, self.fimports) if isinstance(node, ast.Name) else None
        if r and r[0] == 'lock':
            self.locks_seen.setdefault(r[1], r[2])
            return r[1]
        return nm

    def emit(self, kind, name):
        self.out.append((kind, name))

    # -- expressions ------------------------------------------------------
    def expr(self, node):
        if node is None:
            return
        if isinstance(node, ast.Call):
            for a in node.args:
                self.expr(a.value if isinstance(a, ast.Starred) else a)
            for k in node.keywords:
                self.expr(k.value)
            f = node.func
            if isinstance(f, ast.Attribute):
                base = self.root_var(f.value)
                if isinstance(f.value, ast.Name) and f.value.id == 'self' and self.cls in SINGLETON_CLASSES:
                    if f.attr in self.attr_alias:
                        a, meth = self.attr_alias[f.attr]
                        self.emit('wr' if meth in MUTATORS else 'rd', f'{self.cls}.{a}')
                    else:
                        self.emit('call', f'self.{f.attr}')
                    return
                if base is not None:
                    self.emit('wr' if f.attr in MUTATORS else 'rd', base)
                    return
                self.expr(f.value)
                return
            if isinstance(f, ast.Name):
                if f.id in self.alias:       # e.g. closure alias `args_flat_to_return_value_get = d.get`
                    self.emit('rd', self.alias[f.id])
                    return
                if f.id in self.params:
                    self.emit('call', f.id)
                    return
                r = resolve(self.mod, f.id, self.fimports)
                if r and r[0] == 'func':
                    self.inline(r[1], r[2])
                return
            self.expr(f)
            return
        if isinstance(node, (ast.Attribute, ast.Subscript)):
            v = self.root_var(node)
            if isinstance(node, ast.Subscript):
                self.expr(node.slice)
            if v is not None:
                self.emit('wr' if isinstance(node.ctx, (ast.Store, ast.Del)) else 'rd', v)
            else:
                self.expr(node.value)
            return
        if isinstance(node, ast.Name):
            if isinstance(node.ctx, ast.Load):
                v = self.root_var(node)
                if v is not None and node.id not in self.alias:
                    self.emit('rd', v)
            return
        if isinstance(node, (ast.Lambda, ast.FunctionDef)):
            return
        for c in ast.iter_child_nodes(node):
            if isinstance(c, ast.expr):
                self.expr(c)
            elif isinstance(c, (ast.comprehension,)):
                self.expr(c.iter)
                for i in c.ifs:
                    self.expr(i)
            elif isinstance(c, ast.keyword):
                self.expr(c.value)

    def inline(self, mod2: Mod, fn2):
        key = (str(mod2.path), fn2.name)
        if not self.do_inline or key in self.stack or len(self.stack) > 6:
            return
        sk = Skel(mod2, fn2, None, None, self.stack + (key,), self.out, self.locks_seen)
        sk.block(fn2.body)

    # -- statements -------------------------------------------------------
    def bind(self, target, value):
        """aliasing: a local assigned from something rooted in a shared name"""
        v = self.root_var(value) if value is not None else None
        if v is None and isinstance(value, ast.Call) and isinstance(value.func, ast.Name):
            r = resolve(self.mod, value.func.id, self.fimports)
            if r and r[0] == 'func':
                reads = []
                Skel(r[1], r[2], None, None, self.stack + ((str(r[1].path), r[2].name),), reads, {}).block(r[2].body)
                v = next((n for k, n in reads if k in ('rd', 'wr')), None)
        if isinstance(target, ast.Name):
            if v is not None:
                self.alias[target.id] = v
            else:
                self.alias.pop(target.id, None)
        elif isinstance(target, (ast.Tuple, ast.List)):
            for e in target.elts:
                self.bind(e, None)

    def block(self, stmts):
        for st in stmts:
            self.stmt(st)

    def stmt(self, st):
        if isinstance(st, ast.ImportFrom) and st.module:
            for a in st.names:
                self.fimports[a.asname or a.name] = (st.module, a.name)
        elif isinstance(st, ast.Assign):
            self.expr(st.value)
            for t in st.targets:
                if isinstance(t, ast.Name):
                    self.bind(t, st.value)
                else:
                    self.expr(t)
                    if isinstance(t, (ast.Tuple, ast.List)):
                        self.bind(t, None)
        elif isinstance(st, ast.AnnAssign):
            if st.value is not None:
                self.expr(st.value)
                if isinstance(st.target, ast.Name):
                    self.bind(st.target, st.value)
                else:
                    self.expr(st.target)
        elif isinstance(st, ast.AugAssign):
            self.expr(st.value)
            v = self.root_var(st.target)
            if v is not None:
                self.emit('rd', v)
                self.emit('wr', v)
        elif isinstance(st, (ast.Expr, ast.Return)):
            self.expr(st.value)
        elif isinstance(st, ast.If):
            self.expr(st.test)
            self.block(st.body)
            self.block(st.orelse)
        elif isinstance(st, (ast.For, ast.AsyncFor)):
            self.expr(st.iter)
            self.bind(st.target, st.iter)
            self.block(st.body)
            self.block(st.orelse)
        elif isinstance(st, ast.While):
            self.expr(st.test)
            self.block(st.body)
            self.block(st.orelse)
        elif isinstance(st, ast.Try):
            self.block(st.body)
            for h in st.handlers:
                self.block(h.body)
            self.block(st.orelse)
            self.block(st.finalbody)
        elif isinstance(st, (ast.With, ast.AsyncWith)):
            held = []
            for it in st.items:
                lk = self.lock_of(it.context_expr)
                if lk is not None:
                    self.emit('acq', lk)
                    held.append(lk)
                else:
                    self.expr(it.context_expr)
            self.block(st.body)
            for lk in reversed(held):
                self.emit('rel', lk)
        elif isinstance(st, ast.Raise):
            self.expr(st.exc)
        elif isinstance(st, ast.Delete):
            for t in st.targets:
                self.expr(t)
        elif isinstance(st, (ast.FunctionDef, ast.ClassDef, ast.Pass, ast.Import, ast.Global, ast.Nonlocal, ast.Assert,
                             ast.Break, ast.Continue)):
            pass
        else:
            for c in ast.iter_child_nodes(st):
                if isinstance(c, ast.expr):
                    self.expr(c)
                elif isinstance(c, ast.stmt):
                    self.stmt(c)


def _find(mod: Mod, qual: str):
    """'Class.method' | 'func' | 'outer.inner' -> (FunctionDef, class name or None, closure shared dict)"""
    parts = qual.split('.')
    if parts[0] in mod.classes:
        c = mod.classes[parts[0]]
        fn = next(n for n in c.body if isinstance(n, ast.FunctionDef) and n.name == parts[1])
        return fn, parts[0], None
    fn = mod.funcs[parts[0]]
    if len(parts) == 1:
        return fn, None, None
    inner = next(n for n in ast.walk(fn) if isinstance(n, ast.FunctionDef) and n.name == parts[1])
    # closure cells of the decorator: dict displays and bound methods of them
    shared = {}
    for st in fn.body:
        if isinstance(st, (ast.Assign, ast.AnnAssign)):
            tg = st.targets[0] if isinstance(st, ast.Assign) else st.target
            v = st.value
            if isinstance(tg, ast.Name) and isinstance(v, ast.Dict):
                shared[tg.id] = f'{parts[0]}.{tg.id}'
            elif isinstance(tg, ast.Name) and isinstance(v, ast.Attribute) and isinstance(v.value, ast.Name) \
                    and v.value.id in shared:
                shared[tg.id] = shared[v.value.id]
    return inner, None, shared


def skeletons():
    progs, locks = [], {}
    for name, rel, qual, kind in REGIONS:
        mod = Mod.of_path(REPO / rel)
        fn, cls, closure = _find(mod, qual)
        out: list = []
        sk = Skel(mod, fn, cls, closure, ((str(mod.path), qual),), out, locks, do_inline=(kind != 'memo'))
        body = fn.body
        if name.startswith('beartyping.'):
            # generator-based context manager: `try: <enter>; yield  finally: <exit>`
            tr = next(s for s in body if isinstance(s, ast.Try))
            pre = body[:body.index(tr)]
            sk.block(pre)
            del out[:]      # imports/aliases of the prefix are kept, its accesses belong to "enter"
            if name.endswith('.enter'):
                sk.block(pre)
                enter = []
                for s in tr.body:
                    if isinstance(s, ast.Expr) and isinstance(s.value, (ast.Yield, ast.YieldFrom)):
                        break
                    enter.append(s)
                sk.block(enter)
            else:
                sk.block(tr.finalbody)
        else:
            sk.block(body)
        progs.append((name, kind, out))
    progs = _tidy(progs)
    # lock instances
    instances = []
    for rel in sorted({r[1] for r in REGIONS} | {'beartype/door/_cls/doormeta.py', 'beartype/_check/convert/_convcoerce.py',
                                                  'beartype/_util/cache/pool/utilcachepoolinstance.py',
                                                  'beartype/_util/cache/pool/utilcachepoollistfixed.py',
                                                  'beartype/claw/_clawstate.py', 'beartype/_util/cache/utilcacheobjattr.py'}):
        p = REPO / rel
        if not p.exists():
            continue
        m = Mod.of_path(p)
        for g, re_ in sorted(m.locks.items()):
            locks.setdefault(g, re_)
            instances.append((f'{p.stem}.{g}', g, re_))
        for g, (cls, lt) in sorted(m.instances.items()):
            attr = '_thread_lock' if cls == 'KeyPool' else '_lock'
            instances.append((f'{p.stem}.{g}.{attr}', f'{cls}.{attr}', lt == 'RLock'))
    return progs, locks, instances


def _tidy(progs):
    """drop reads of names nobody writes (module-level constants), opaque calls outside every lock, and
    immediate repetitions"""
    written = {n for _, _, acts in progs for k, n in acts if k == 'wr'}
    out = []
    for name, kind, acts in progs:
        depth, res = 0, []
        for k, n in acts:
            if k == 'acq':
                depth += 1
            elif k == 'rel':
                depth -= 1
            if k == 'rd' and n not in written:
                continue
            if k == 'call' and depth == 0:
                continue
            if res and res[-1] == (k, n) and k in ('rd', 'wr'):
                continue
            res.append((k, n))
        out.append((name, kind, res))
    return out


def _q(s):
    return '"' + s.replace('\\', '\\\\').replace('"', '\\"') + '"'


def extract():
    Mod._cache.clear()
    progs, locks, instances = skeletons()

    def act(a):
        return f'.{a[0]} {_q(a[1])}'

    def prog(p):
        return f'  {{ name := {_q(p[0])}, acts := [' + ', '.join(act(a) for a in p[2]) + '] }'
    text = ('/- GENERATED on every run by harness/extract/conc.py from the source (AST) of\n   '
            + ',\n   '.join(sorted({r[1] for r in REGIONS})) + '\n   (callees inlined). Do not edit. -/\n'
            'import BearVerif.Core.Conc\nnamespace BearVerif.Extracted\nopen BearVerif.Conc\n\n'
            '/-- lock name ↦ reentrant (`RLock`) as constructed in the source -/\n'
            'def concLocks : List (LockId × Bool) := [' + ', '.join(f'({_q(k)}, {"true" if v else "false"})' for k, v in sorted(locks.items())) + ']\n\n'
            '/-- module-level lock objects: (instance, lock name used in the skeletons, reentrant) -/\n'
            'def concLockInstances : List (String × LockId × Bool) := [' +
            ', '.join(f'({_q(a)}, {_q(b)}, {"true" if c else "false"})' for a, b, c in instances) + ']\n\n'
            '/-- skeletons of the lock-protected regions (one per public operation / singleton method) -/\n'
            'def concProgs : List Prog := [\n' + ',\n'.join(prog(p) for p in progs if p[1] == 'locked') + '\n]\n\n'
            '/-- skeletons of the deliberately lock-free memo sites -/\n'
            'def concMemoProgs : List Prog := [\n' + ',\n'.join(prog(p) for p in progs if p[1] == 'memo') + '\n]\n\n'
            'end BearVerif.Extracted\n')
    write_if_changed(LEAN / 'BearVerif/Extracted/Conc.lean', text)
    return {'progs': {p[0]: p[2] for p in progs}, 'kinds': {p[0]: p[1] for p in progs}, 'locks': locks, 'instances': instances}


if __name__ == '__main__':
    import json
    r = extract()
    for k, v in r['progs'].items():
        print(k, r['kinds'][k], ' '.join(f'{a}:{b}' for a, b in v))
    print(json.dumps(r['locks']), r['instances'])
