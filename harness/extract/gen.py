"""Translator for C08: how `BeartypeCallDecorFuncData.reinit` picks the wrapper's prefixes and return
snippets from code-object flags, and what the snippets syntactically are -> Extracted/Gen.lean.

* `deinit` defaults and the `if func_wrappee_codeobj:` block of `reinit` are read from the SOURCE TEXT (AST) of
  beartype/_check/cls/call/calldatadecorfunc.py and flattened into guarded assignments in program order.
* which CO_* flag each `is_func_*` tester reads: AST of beartype/_util/func/utilfunctest.py.
* the snippets themselves are the run-time values of the constants of the three data modules (they are
  f-strings); each is parsed as the body of a function with CPython's own `ast` and reduced to
  (has yield, has yield from, has await, awaits the decorated callable, calls the decorated callable)
  plus a comment-free, local-variable-renamed structural dump (`ast.dump`) that `Props/C08.lean` compares with the shape the
  hand-written model `wrap525` / `wrapDeleg` mirrors.
"""
from __future__ import annotations

import ast
import importlib

from ..common import LEAN, REPO, write_if_changed

ATTRS = ('func_wrapper_code_signature_prefix', 'func_wrapper_code_call_prefix',
         'func_wrapper_code_return_checked', 'func_wrapper_code_return_unchecked')
TESTERS = ('is_func_coro', 'is_func_sync_generator', 'is_func_async_generator')
SNIPPET_MODULES = {
    'beartype._data.check.code.func.datacodefuncwrap': (
        'CODE_NORMAL_RETURN_CHECKED', 'CODE_NORMAL_RETURN_UNCHECKED_SYNC', 'CODE_NORMAL_RETURN_UNCHECKED_ASYNC'),
    'beartype._data.check.code.pep.datacodepep342': ('CODE_PEP342_RETURN_CHECKED', 'CODE_PEP342_RETURN_UNCHECKED'),
    'beartype._data.check.code.pep.datacodepep525': ('CODE_PEP525_RETURN_CHECKED', 'CODE_PEP525_RETURN_UNCHECKED'),
}


def _val(node) -> str:
    if isinstance(node, ast.Constant) and isinstance(node.value, str):
        return node.value
    if isinstance(node, ast.Name):
        return node.id
    return 'UNSUPPORTED:' + ast.dump(node)


def _self_attr(t):
    return t.attr if isinstance(t, ast.Attribute) and isinstance(t.value, ast.Name) and t.value.id == 'self' else None


def reinit_program():
    """(defaults, guarded assignments) of the four wrapper-code attributes."""
    src = (REPO / 'beartype/_check/cls/call/calldatadecorfunc.py').read_text()
    cls = next(n for n in ast.walk(ast.parse(src)) if isinstance(n, ast.ClassDef) and n.name == 'BeartypeCallDecorFuncData')
    meth = {n.name: n for n in cls.body if isinstance(n, ast.FunctionDef)}
    defaults = []
    for st in ast.walk(meth['deinit']):
        if isinstance(st, ast.Assign):
            for t in st.targets:
                if _self_attr(t) in ATTRS:
                    defaults.append((_self_attr(t), _val(st.value)))
    prog = []

    def walk(stmts, guard):
        for st in stmts:
            if isinstance(st, ast.If) and isinstance(st.test, ast.Call) and isinstance(st.test.func, ast.Name) \
                    and st.test.func.id in TESTERS:
                walk(st.body, guard + [(st.test.func.id, True)])
                walk(st.orelse, guard + [(st.test.func.id, False)])
            elif isinstance(st, ast.Assign) and all(_self_attr(t) in ATTRS for t in st.targets):
                for t in st.targets:
                    prog.append((guard, _self_attr(t), _val(st.value)))
            elif isinstance(st, (ast.Pass, ast.Expr)) and (isinstance(st, ast.Pass) or isinstance(st.value, ast.Constant)):
                continue
            else:
                prog.append((guard, 'UNSUPPORTED', ast.dump(st)[:200]))

    blocks = [n for n in ast.walk(meth['reinit']) if isinstance(n, ast.If) and isinstance(n.test, ast.Name)
              and n.test.id == 'func_wrappee_codeobj']
    if len(blocks) != 1:
        prog.append(([], 'UNSUPPORTED', f'{len(blocks)} `if func_wrappee_codeobj:` blocks'))
    for b in blocks:
        walk(b.body, [])
        walk(b.orelse, [])
    # any other assignment of the four attributes inside reinit, outside that block, is not understood
    inside = {id(n) for b in blocks for n in ast.walk(b)}
    for st in ast.walk(meth['reinit']):
        if isinstance(st, ast.Assign) and id(st) not in inside and any(_self_attr(t) in ATTRS for t in st.targets):
            prog.append(([], 'UNSUPPORTED', ast.dump(st)[:200]))
    return defaults, prog


def flag_tests():
    """is_func_* -> the CO_* names its return expression reads."""
    src = (REPO / 'beartype/_util/func/utilfunctest.py').read_text()
    out = []
    for n in ast.parse(src).body:
        if isinstance(n, ast.FunctionDef) and n.name in TESTERS:
            cos = sorted({m.id for m in ast.walk(n) if isinstance(m, ast.Name) and m.id.startswith('CO_')})
            out.append((n.name, ' '.join(cos)))
    return sorted(out)


def snippets() -> dict[str, str]:
    out = {}
    for mod, names in SNIPPET_MODULES.items():
        m = importlib.import_module(mod)
        for n in names:
            out[n] = getattr(m, n, None)
    # the call statement of a checked wrapper, instantiated with either call prefix `reinit` may choose
    from beartype._data.check.code.func import datacodefuncwrap as w
    for prefix in ('', 'await '):
        try:
            out[f'CODE_CALL_CHECKED[{prefix}]'] = w.CODE_CALL_CHECKED.format(func_call_prefix=prefix) + '\n        pass'
        except Exception:
            out[f'CODE_CALL_CHECKED[{prefix}]'] = None
    return out


def _alpha(body, keep):
    """rename the snippet's own local variables (assignment targets, `except … as` names) to $0, $1, … in order of
    first binding, so that a mere renaming is not a structural difference"""
    order = {}
    for st in body:
        for n in ast.walk(st):
            name = n.id if isinstance(n, ast.Name) and isinstance(n.ctx, ast.Store) else \
                n.name if isinstance(n, ast.ExceptHandler) else None
            if name and name not in keep and name not in order:
                order[name] = f'${len(order)}'
    for st in body:
        for n in ast.walk(st):
            if isinstance(n, ast.Name) and n.id in order:
                n.id = order[n.id]
            elif isinstance(n, ast.ExceptHandler) and n.name in order:
                n.name = order[n.name]


def snippet_facts():
    from beartype._data.check.code.datacodename import ARG_NAME_FUNC, VAR_NAME_PITH_ROOT
    feats, dumps = [], []
    for name, code in sorted(snippets().items()):
        if not isinstance(code, str):
            feats.append((name, None))
            dumps.append((name, 'MISSING'))
            continue
        try:
            body = ast.parse('async def __w__(*args, **kwargs):' + (code if code.startswith('\n') else '\n' + code)).body[0].body
        except SyntaxError as e:
            feats.append((name, None))
            dumps.append((name, f'SyntaxError: {e.msg}'))
            continue
        nodes = [n for st in body for n in ast.walk(st)]

        def is_func_call(c):
            return isinstance(c, ast.Call) and isinstance(c.func, ast.Name) and c.func.id == ARG_NAME_FUNC
        feats.append((name, (
            any(isinstance(n, ast.Yield) for n in nodes),
            any(isinstance(n, ast.YieldFrom) for n in nodes),
            any(isinstance(n, ast.Await) for n in nodes),
            any(isinstance(n, ast.Await) and is_func_call(n.value) for n in nodes),
            any(is_func_call(n) for n in nodes))))
        _alpha(body, {ARG_NAME_FUNC, VAR_NAME_PITH_ROOT, 'args', 'kwargs'})
        dumps.append((name, '; '.join(ast.dump(st, annotate_fields=False) for st in body)))
    return feats, dumps


def _s(x: str) -> str:
    return '"' + x.replace('\\', '\\\\').replace('"', '\\"').replace('\n', '\\n') + '"'


def _b(x: bool) -> str:
    return 'true' if x else 'false'


def extract() -> dict:
    defaults, prog = reinit_program()
    feats, dumps = snippet_facts()
    tests = flag_tests()
    L = ['import BearVerif.Core.Gen',
         '/- GENERATED on every run by harness/extract/gen.py from',
         '   beartype/_check/cls/call/calldatadecorfunc.py (deinit, reinit), beartype/_util/func/utilfunctest.py and the',
         '   snippet constants of beartype/_data/check/code/{func/datacodefuncwrap,pep/datacodepep342,pep/datacodepep525}.py.',
         '   Do not edit. -/',
         'namespace BearVerif.Extracted', 'open BearVerif.Gen', '',
         '/-- `deinit`: defaults of the four wrapper-code attributes, in program order -/',
         'def genReinitDefaults : List (String × String) := [' + ', '.join(f'({_s(a)}, {_s(v)})' for a, v in defaults) + ']', '',
         '/-- `reinit`, `if func_wrappee_codeobj:` block, flattened: guards, attribute, value — in program order -/',
         'def genReinitProg : List GAssign := [']
    L.append(',\n'.join('  ⟨[' + ', '.join(f'({_s(t)}, {_b(p)})' for t, p in g) + f'], {_s(a)}, {_s(v)}⟩' for g, a, v in prog))
    L += [']', '', '/-- which CO_* flags each tester reads -/',
          'def genFlagTests : List (String × String) := [' + ', '.join(f'({_s(a)}, {_s(v)})' for a, v in tests) + ']', '',
          '/-- per parsable snippet: has yield, has yield from, has await, awaits the decorated callable, calls it -/',
          'def genSnippetFeats : List (String × Feat) := [']
    L.append(',\n'.join('  (' + _s(n) + ', ⟨' + ', '.join(_b(x) for x in f) + '⟩)' for n, f in feats if f is not None))
    L += [']', '', '/-- per snippet: comment-free structural dump (CPython `ast.dump`) of its statements -/',
          'def genSnippetDumps : List (String × String) := [']
    L.append(',\n'.join(f'  ({_s(n)},\n   {_s(d)})' for n, d in dumps))
    L += [']', '', 'end BearVerif.Extracted', '']
    write_if_changed(LEAN / 'BearVerif/Extracted/Gen.lean', '\n'.join(L))
    return {'defaults': defaults, 'prog': prog, 'feats': feats, 'dumps': dict(dumps), 'tests': tests}
