"""Translator: the cache-file marker recipe of the import hook -> lean/BearVerif/Extracted/Pyc.lean.

Two readings of /repo, both redone on every run:
  * static: OPTIMIZATION_MARKER_BEARTYPE as beartype/_data/claw/dataclawmagic.py computes it (the literal part
    of the marker) and the names the transformer injects (BEARTYPE_*_NAME of the same module);
  * observed: for EVERY point of the finite space of AST-shaping options (claw_is_pep526 x claw_decor_place_func
    x claw_decor_place_type) one scratch package is hooked with that configuration in a fresh interpreter and
    imported; the `opt-<tag>` part of the cache file that the real BeartypeSourceFileLoader.get_code probes is
    the table entry (which option, if any, the marker depends on is read off the table). The 4th key
    component is the real predicate `make_conf_hookable(conf) != BEARTYPE_CONF_DEFAULT` (the `conf=` keyword).
"""
from __future__ import annotations

import itertools
import shutil
import tempfile
from pathlib import Path

from ..common import LEAN, REPO, write_if_changed

PLACES = {'FIRST': 1, 'LAST': 2, 'LAST_BEFORE_DECOR_HOSTILE': 3}     # BeartypeDecorPlace member values
_CACHE: dict = {}


def static_marker() -> dict:
    import beartype._data.claw.dataclawmagic as magic
    assert Path(magic.__file__).resolve().is_relative_to(REPO.resolve()), magic.__file__
    from beartype import BeartypeDecorPlace
    assert {m.name: m.value for m in BeartypeDecorPlace} == PLACES, 'BeartypeDecorPlace changed'
    return {'prefix': magic.OPTIMIZATION_MARKER_BEARTYPE,
            'names': [magic.BEARTYPE_DECORATOR_FUNC_NAME, magic.BEARTYPE_RAISER_FUNC_NAME, magic.BEARTYPE_CLAW_STATE_OBJ_NAME]}


def observe() -> dict:
    """{(pep526, func place, type place, conf keyword): tag} + the tag of an unhooked module."""
    from ..impl import c16tree as T
    grid = list(itertools.product([True, False], PLACES, PLACES))
    mods = [f'xp{i}.m' for i in range(len(grid))] + ['xu.m']
    d = Path(tempfile.mkdtemp(prefix='verif_c16x_'))
    try:
        tree = d / 'tree'
        T.make_tree(tree, 0, modules=mods)
        hooks = [[f'xp{i}', {'claw_is_pep526': p, 'claw_decor_place_func': f, 'claw_decor_place_type': t}]
                 for i, (p, f, t) in enumerate(grid)]
        res = T.run_once(d / 'pyc', {'tree': str(tree), 'hooks': hooks, 'imports': mods})
    finally:
        shutil.rmtree(d, ignore_errors=True)
    by = {r['mod']: r for r in res['imports']}
    table = {}
    for i, (p, f, t) in enumerate(grid):
        r = by[f'xp{i}.m']
        assert r['import'] == 'ok', r
        table[(p, PLACES[f], PLACES[t], bool(res['conf_kw'][i]))] = r['event']['probed']
    return {'table': table, 'unhooked': by['xu.m']['event']['probed']}


def extract() -> dict:
    if 'x' in _CACHE:
        return _CACHE['x']
    st = static_marker()
    ob = observe()
    rows = ',\n  '.join(f'(({str(p).lower()}, {f}, {t}, {str(k).lower()}), "{tag}")'
                        for (p, f, t, k), tag in sorted(ob['table'].items(), key=lambda kv: (not kv[0][0], kv[0][1:])))
    text = ('/- GENERATED on every run by harness/extract/pyc.py from beartype/_data/claw/dataclawmagic.py (marker literal)\n'
            '   and by observing, for every combination of the AST-shaping options, which cache file the real\n'
            '   BeartypeSourceFileLoader.get_code probes for a hooked module. Do not edit. -/\n'
            'namespace BearVerif.Extracted\n\n'
            '/-- OPTIMIZATION_MARKER_BEARTYPE -/\n'
            f'def pycMarkerPrefix : String := "{st["prefix"]}"\n\n'
            '/-- tag of the cache file of a module no hook applies to -/\n'
            f'def pycUnhookedTag : String := "{ob["unhooked"]}"\n\n'
            '/-- (claw_is_pep526, claw_decor_place_func, claw_decor_place_type, conf != BEARTYPE_CONF_DEFAULT) ↦ observed tag;\n'
            '    places are the BeartypeDecorPlace member values FIRST=1 LAST=2 LAST_BEFORE_DECOR_HOSTILE=3 -/\n'
            'def pycHookedTags : List ((Bool × Nat × Nat × Bool) × String) := [\n  ' + rows + ']\n\n'
            'end BearVerif.Extracted\n')
    write_if_changed(LEAN / 'BearVerif/Extracted/Pyc.lean', text)
    _CACHE['x'] = {'prefix': st['prefix'], 'names': st['names'], 'table': ob['table'], 'unhooked': ob['unhooked']}
    return _CACHE['x']
