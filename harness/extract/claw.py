"""Translator: the built-in exclusion list of the claw registry -> Extracted/Claw.lean."""
import ast
from ..common import REPO, LEAN, write_if_changed


def builtin_blacklist() -> list[str]:
    """BLACKLIST_PACKAGE_NAMES | {'beartype'} read from the *source text* (AST), the
    way beartype/claw/_clawstate.py::_init combines them."""
    src = (REPO / 'beartype/_data/shame/module/datashamemod.py').read_text()
    names = None
    for node in ast.walk(ast.parse(src)):
        if isinstance(node, ast.Assign) and any(isinstance(t, ast.Name) and t.id == 'BLACKLIST_PACKAGE_NAMES' for t in node.targets):
            names = {c.value for c in ast.walk(node.value) if isinstance(c, ast.Constant) and isinstance(c.value, str)}
    assert names is not None, 'BLACKLIST_PACKAGE_NAMES not found'
    st = (REPO / 'beartype/claw/_clawstate.py').read_text()
    extra = set()
    for node in ast.walk(ast.parse(st)):
        if isinstance(node, ast.BinOp) and isinstance(node.op, ast.BitOr) and isinstance(node.left, ast.Name) \
                and node.left.id == 'BLACKLIST_PACKAGE_NAMES':
            extra |= {c.value for c in ast.walk(node.right) if isinstance(c, ast.Constant) and isinstance(c.value, str)}
    return sorted(names | extra)


def extract() -> list[str]:
    names = builtin_blacklist()
    text = ('/- GENERATED on every run by harness/extract/claw.py from\n'
            '   beartype/_data/shame/module/datashamemod.py and beartype/claw/_clawstate.py. Do not edit. -/\n'
            'namespace BearVerif.Extracted\n\n'
            'def clawBuiltinBlacklist : List String := [' + ', '.join(f'"{n}"' for n in names) + ']\n\n'
            'end BearVerif.Extracted\n')
    write_if_changed(LEAN / 'BearVerif/Extracted/Claw.lean', text)
    return names
