"""Shared infrastructure of the /verif checks.

Pipeline of every check (DESIGN §2.2):
  1 extract     /repo -> lean/BearVerif/Extracted/*.lean          (translator tie)
  2 prove       lake build Props.Cxx ; `#print axioms` audit ; forbidden-token scan
  3 correspond  generated cases -> real code || Lean driver -> diff
  4 oracle      the property itself evaluated on the REAL outputs
  5 decide      KNOWN-FINDING / VIOLATION replay / VIOLATION ... no-failing-input-found
  6 evidence    evidence/Cxx.json
"""
from __future__ import annotations

import hashlib
import json
import os
import re
import subprocess
import sys
import time
from dataclasses import dataclass, field
from pathlib import Path

VERIF = Path(__file__).resolve().parents[1]
LEAN = VERIF / 'lean'
REPO = Path(os.environ.get('VERIF_REPO', '/repo'))
PY = os.environ.get('VERIF_PYTHON', '/venv/bin/python')
ALLOWED_AXIOMS = {'propext', 'Classical.choice', 'Quot.sound'}
FORBIDDEN = re.compile(
    r'\b(sorry|admit|native_decide|bv_decide|implemented_by|unsafe)\b|^\s*axiom\s|maxHeartbeats\s+0')

TRUSTED_BASE = [
    'Lean 4.33.0 kernel (lake build; thorough tier additionally re-checks the olean with leanchecker)',
    'axioms allowed: propext, Classical.choice, Quot.sound (audited with #print axioms on every run)',
    'no sorry/admit/axiom/native_decide/bv_decide/implemented_by/unsafe (source scan on every run)',
    'the Python harness (generators, canonicalisation, correspondence diff) and CPython 3.12 running /repo',
]


# ---------------------------------------------------------------------------
# s-expressions (wire format of the line protocol)
# ---------------------------------------------------------------------------
_NEEDS_QUOTE = re.compile(r'[\s()]')


def sexp(x) -> str:
    if isinstance(x, (list, tuple)):
        return '(' + ' '.join(sexp(y) for y in x) + ')'
    if isinstance(x, bool):
        return 'true' if x else 'false'
    if x is None:
        return 'none'
    s = str(x)
    if s == '' or _NEEDS_QUOTE.search(s):
        assert '"' not in s, s
        return '"' + s + '"'
    return s


def parse_sexp(s: str):
    toks = re.findall(r'\(|\)|"[^"]*"|[^\s()]+', s)
    pos = 0

    def rd():
        nonlocal pos
        t = toks[pos]
        pos += 1
        if t == '(':
            out = []
            while toks[pos] != ')':
                out.append(rd())
            pos += 1
            return out
        if t.startswith('"'):
            return t[1:-1]
        return t
    v = rd()
    assert pos == len(toks), s
    return v


# ---------------------------------------------------------------------------
# Lean side
# ---------------------------------------------------------------------------
def run(cmd, cwd=None, timeout=3600, input=None, env=None):
    e = dict(os.environ)
    if env:
        e.update(env)
    p = subprocess.run(cmd, cwd=cwd, input=input, capture_output=True, text=True, timeout=timeout, env=e)
    return p.returncode, p.stdout, p.stderr


def lean_build(targets: list[str], clean: bool = False) -> tuple[bool, str]:
    """`lake build <targets>`; returns (ok, log). `clean` removes the property's
    own compiled modules first (thorough tier)."""
    if clean:
        for t in targets:
            rel = t.replace('.', '/')
            for ext in ('olean', 'ilean', 'trace', 'olean.hash', 'ilean.hash'):
                f = LEAN / '.lake/build/lib/lean' / f'{rel}.{ext}'
                if f.exists():
                    f.unlink()
    rc, out, err = run(['lake', 'build', *targets], cwd=LEAN, timeout=3000)
    return rc == 0, (out + err)


def lean_driver(lines: list[str], pid: str, timeout=3000, exe: str | None = None) -> list[str]:
    """Pipe request lines through the model driver of property `pid`
    (lean/Main<pid>.lean, importing BearVerif.Driver.<pid>); one response line per request.
    With `exe` (a lean_exe target of lean/lakefile.toml whose imports are Mathlib-free) the
    driver is compiled to native code (same source, ~50x faster than `lean --run`)."""
    if pid not in _DRIVER_BUILT:
        _DRIVER_BUILT[pid] = lean_build([f'BearVerif.Driver.{pid}', 'BearVerif.Core.Loop'] + ([exe] if exe else []))
    ok, log = _DRIVER_BUILT[pid]
    if not ok:
        raise DriverError(f'driver of {pid} does not build: {log[-3000:]}')
    cmd = [str(LEAN / '.lake/build/bin' / exe)] if exe else ['lake', 'env', 'lean', '--run', f'Main{pid}.lean']
    rc, out, err = run(cmd, cwd=LEAN, input='\n'.join(lines) + '\n', timeout=timeout)
    res = out.splitlines()
    if rc != 0 or len(res) != len(lines):
        raise DriverError(f'driver rc={rc} lines={len(res)}/{len(lines)} stderr={err[-2000:]}')
    return res


_DRIVER_BUILT: dict = {}


class DriverError(Exception):
    pass


def theorem_names(prop_file: Path) -> list[str]:
    """Property theorems = every `theorem Cxx_…` of Props/Cxx.lean (fully qualified)."""
    src = prop_file.read_text()
    ns = None
    names = []
    for line in src.splitlines():
        m = re.match(r'namespace\s+(\S+)', line)
        if m:
            ns = m.group(1)
        m = re.match(r'(?:private\s+)?theorem\s+(C\d\d\w*)', line)
        if m:
            names.append((ns + '.' if ns else '') + m.group(1))
    return names


def strip_lean_comments(src: str) -> str:
    # block comments (possibly nested) then line comments
    out = []
    depth = 0
    i = 0
    while i < len(src):
        if src.startswith('/-', i):
            depth += 1
            i += 2
        elif src.startswith('-/', i) and depth:
            depth -= 1
            i += 2
        elif depth:
            if src[i] == '\n':
                out.append('\n')
            i += 1
        else:
            out.append(src[i])
            i += 1
    return re.sub(r'--.*', '', ''.join(out))


def forbidden_tokens(files: list[Path]) -> list[str]:
    hits = []
    for f in files:
        code = strip_lean_comments(f.read_text())
        for n, line in enumerate(code.splitlines(), 1):
            if FORBIDDEN.search(line):
                hits.append(f'{f.relative_to(LEAN)}:{n}: {line.strip()[:120]}')
    return hits


def lean_imports_closure(module: str) -> list[Path]:
    """Source files of `module` and everything of BearVerif it imports."""
    seen, todo = {}, [module]
    while todo:
        m = todo.pop()
        if m in seen or not m.startswith('BearVerif'):
            continue
        f = LEAN / (m.replace('.', '/') + '.lean')
        if not f.exists():
            continue
        seen[m] = f
        for mm in re.findall(r'^import\s+(\S+)', f.read_text(), flags=re.M):
            todo.append(mm)
    return list(seen.values())


def axiom_audit(pid: str, module: str, names: list[str]) -> dict[str, list[str] | None]:
    """`#print axioms` for every property theorem, against the freshly built olean."""
    aud = LEAN / f'.audit_{pid}.lean'
    aud.write_text(f'import {module}\n' + ''.join(f'#print axioms {n}\n' for n in names))
    try:
        rc, out, err = run(['lake', 'env', 'lean', str(aud.name)], cwd=LEAN, timeout=1200)
    finally:
        aud.unlink(missing_ok=True)
    text = out + err
    res: dict[str, list[str] | None] = {n: None for n in names}
    for m in re.finditer(r"'([^']+)' depends on axioms: \[([^\]]*)\]", text, flags=re.S):
        res[m.group(1)] = [a.strip() for a in m.group(2).replace('\n', ' ').split(',') if a.strip()]
    for m in re.finditer(r"'([^']+)' does not depend on any axioms", text):
        res[m.group(1)] = []
    return res


def leanchecker(modules: list[str]) -> tuple[bool, str]:
    rc, out, err = run(['lake', 'env', 'leanchecker', *modules], cwd=LEAN, timeout=3000)
    return rc == 0, (out + err)[-3000:]


def write_if_changed(path: Path, text: str) -> bool:
    if path.exists() and path.read_text() == text:
        return False
    path.parent.mkdir(parents=True, exist_ok=True)
    path.write_text(text)
    return True


# ---------------------------------------------------------------------------
# findings, violations, evidence
# ---------------------------------------------------------------------------
@dataclass
class Failure:
    """A concrete input/history on which the REAL code breaks the property."""
    key: str          # canonical identity of the failing input (matches known_findings.json)
    what: str         # one line
    replay: dict      # everything needed to re-execute it against /repo


@dataclass
class Explore:
    evaluations: int = 0
    distinct_nontrivial: int = 0
    traces_validated: int = 0
    rule: str = ''
    samples: list = field(default_factory=list)
    failures: list[Failure] = field(default_factory=list)       # property broken on the real code
    corr_diffs: list[dict] = field(default_factory=list)         # model and code disagree
    extra: dict = field(default_factory=dict)


def load_known() -> list[dict]:
    f = VERIF / 'known_findings.json'
    if not f.exists():
        return []
    return json.loads(f.read_text()).get('findings', [])


class Check:
    def __init__(self, pid: str, tier: str, seed: int):
        self.pid, self.tier, self.seed = pid, tier, seed
        self.t0 = time.time()
        self.violations = 0
        self.known_hits: list[str] = []
        self.lines: list[str] = []
        (VERIF / 'evidence').mkdir(exist_ok=True)
        (VERIF / 'replays').mkdir(exist_ok=True)

    def log(self, *a):
        print(*a, flush=True)

    # -- step 2 ------------------------------------------------------------
    def prove(self, module: str, prop_file: Path) -> dict:
        """Build the property module, audit axioms, scan for forbidden tokens."""
        names = theorem_names(prop_file)
        ok, log = lean_build([module], clean=(self.tier == 'thorough'))
        res = {'module': module, 'theorems': names, 'build_ok': ok, 'build_log': '' if ok else log[-4000:],
               'axioms': {}, 'bad_axioms': {}, 'forbidden': [], 'obligations': len(names), 'discharged': 0,
               'checker_cmd': f'cd lean && lake build {module} && lake env lean <#print axioms of {len(names)} theorems>'}
        if ok:
            ax = axiom_audit(self.pid, module, names)
            res['axioms'] = ax
            res['bad_axioms'] = {n: a for n, a in ax.items() if a is None or not set(a) <= ALLOWED_AXIOMS}
            res['forbidden'] = forbidden_tokens(lean_imports_closure(module))
            if not res['forbidden']:
                res['discharged'] = sum(1 for n in names if n not in res['bad_axioms'])
            if self.tier == 'thorough':
                okc, logc = leanchecker([module])
                res['leanchecker_ok'] = okc
                res['checker_cmd'] += f' && lake env leanchecker {module}'
                if not okc:
                    res['discharged'] = 0
                    res['build_log'] = logc
        res['ok'] = bool(ok and names and res['discharged'] == len(names))
        self.log(f'[{self.pid}] prove: build_ok={ok} theorems={len(names)} discharged={res["discharged"]} '
                 f'forbidden={len(res["forbidden"])} bad_axioms={list(res["bad_axioms"])}')
        return res

    # -- step 5 ------------------------------------------------------------
    def report_failure(self, f: Failure):
        known = [k for k in load_known() if k['property'] == self.pid and k['key'] == f.key]
        if known:
            if f.key not in self.known_hits:
                self.known_hits.append(f.key)
                self.log(f'KNOWN-FINDING: property={self.pid} {known[0]["what"]} [key={f.key}]')
            return
        h = hashlib.sha1(f.key.encode()).hexdigest()[:10]
        path = VERIF / 'replays' / f'{self.pid}_{h}.json'
        path.write_text(json.dumps({'property': self.pid, 'key': f.key, 'what': f.what, **f.replay}, indent=1, default=str))
        self.violations += 1
        self.log(f'[{self.pid}] {f.what}')
        self.log(f'VIOLATION property={self.pid} replay={path.relative_to(VERIF)}')

    def report_unexplained(self, what: str, detail: dict):
        """A proof obligation or the correspondence no longer checks and the search
        found no failing input on the real code."""
        path = VERIF / 'replays' / f'{self.pid}_no_failing_input.json'
        path.write_text(json.dumps({'property': self.pid, 'no_failing_input_found': True, 'what': what, **detail},
                                   indent=1, default=str))
        self.violations += 1
        self.log(f'[{self.pid}] {what}')
        self.log(f'VIOLATION property={self.pid} replay={path.relative_to(VERIF)} no-failing-input-found')

    def decide(self, proof: dict, ex: Explore, deep_search=None):
        """DESIGN §2.2 step 5."""
        seen = set()
        for f in ex.failures:
            if f.key not in seen:
                seen.add(f.key)
                self.report_failure(f)
        broken = []
        if not proof['ok']:
            broken.append('proof')
        if ex.corr_diffs:
            broken.append('correspondence')
        if broken and self.violations == 0:
            # a broken proof / correspondence is not by itself a violation: search
            self.log(f'[{self.pid}] {"+".join(broken)} no longer checks; searching the real code for a failing input')
            found = []
            if deep_search is not None:
                dex = deep_search()
                ex.evaluations += dex.evaluations
                ex.extra['deep_search_evaluations'] = dex.evaluations
                for f in dex.failures:
                    if f.key not in seen:
                        seen.add(f.key)
                        found.append(f)
                        self.report_failure(f)
            if self.violations == 0:
                what = []
                detail = {}
                if 'proof' in broken:
                    what.append('theorems of ' + proof['module'] + ' no longer check: ' +
                                (', '.join(proof['bad_axioms']) or ('forbidden tokens ' + '; '.join(proof['forbidden'])
                                                                     if proof['forbidden'] else 'build failed')))
                    detail['proof'] = {k: proof[k] for k in ('module', 'theorems', 'build_log', 'bad_axioms', 'forbidden')}
                if 'correspondence' in broken:
                    what.append(f'model/implementation correspondence differs on {len(ex.corr_diffs)} case(s)')
                    detail['correspondence_first_diffs'] = ex.corr_diffs[:5]
                self.report_unexplained('; '.join(what), detail)

    # -- step 6 ------------------------------------------------------------
    def evidence(self, proof: dict, ex: Explore, level_note: str, assumptions: list[str], extra: dict | None = None):
        cov = {
            'obligations': proof['obligations'],
            'discharged': proof['discharged'],
            'checker_cmd': proof['checker_cmd'],
            'trusted_base': TRUSTED_BASE,
            'theorems': proof['theorems'],
            'axioms': proof['axioms'],
            'evaluations': ex.evaluations,
            'distinct_nontrivial': ex.distinct_nontrivial,
            'traces_validated_against_impl': ex.traces_validated,
            'correspondence_diffs': len(ex.corr_diffs),
            'property_failures_on_impl': len(ex.failures),
            'known_findings_hit': self.known_hits,
            'rule': ex.rule,
            'samples': ex.samples[:5],
            'level_note': level_note,
        }
        cov.update(ex.extra)
        if extra:
            cov.update(extra)
        ev = {
            'property_id': self.pid, 'tier': self.tier, 'seed': self.seed, 'level': 'proof',
            'coverage': cov, 'assumptions': assumptions,
            'wall_s': round(time.time() - self.t0, 2), 'violations': self.violations,
        }
        # evidence/<id>.json describes runs against /repo only; a run against another tree (VERIF_REPO=…, used by the
        # seeded-change tooling) records itself under evidence/other_tree/ (not committed)
        out_dir = VERIF / 'evidence' if REPO.resolve() == Path('/repo') else VERIF / 'evidence' / 'other_tree'
        out_dir.mkdir(parents=True, exist_ok=True)
        (out_dir / f'{self.pid}.json').write_text(json.dumps(ev, indent=1, default=str))

    def finish(self) -> int:
        self.log(f'[{self.pid}] tier={self.tier} seed={self.seed} violations={self.violations} '
                 f'known={len(self.known_hits)} wall={time.time() - self.t0:.1f}s')
        return 1 if self.violations else 0


def subproc_json(module: str, payload: dict, timeout=1800, env=None) -> dict:
    """Run `python -m <module>` in a fresh interpreter with JSON on stdin/stdout
    (real beartype imported from REPO)."""
    e = {'PYTHONPATH': f'{VERIF}:{REPO}', 'PYTHONDONTWRITEBYTECODE': '1', 'PYTHONHASHSEED': '0'}
    if env:
        e.update(env)
    rc, out, err = run([PY, '-m', module], cwd=VERIF, input=json.dumps(payload), timeout=timeout, env=e)
    if rc != 0:
        raise RuntimeError(f'{module} failed rc={rc}: {err[-3000:]}')
    return json.loads(out.splitlines()[-1])
