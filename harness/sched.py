"""Controlled thread scheduler (C15; DESIGN §4 C15 "tie (b)").

Worker threads are REAL threads running REAL beartype code, but only one of them
runs at any time: every thread is traced with `sys.settrace`; every `line` event
(optionally every bytecode `opcode` event in selected "focus" files) inside the
beartype tree is a *yield point* at which the running thread asks the schedule
who runs next and, if it is somebody else, hands over a token (per-thread
semaphore) and parks. Every `threading.Lock`/`RLock` owned by beartype (module
globals and attributes of beartype objects) is replaced by a cooperative lock:
a failed acquire marks the thread as waiting and yields, so a blocked acquire is
a scheduling decision and "every live thread waits for a held lock" is detected
as a deadlock instead of hanging.

A schedule is the sequence of thread indices chosen at the yield points, stored
run-length encoded `[[tid, n], ...]`; `Replay` re-executes it. Determinism: the
code under test must reach the same yield points given the same schedule, which
holds when every trial meets the same relevant process state (the C15 worker gives every
trial brand-new hints/configurations and replays an episode in a fresh interpreter).

Nothing here is specific to beartype except the lock discovery
(`install_coop_locks`), which looks at modules/objects of a package prefix.
"""
from __future__ import annotations

import gc
import random
import sys
import threading

_LOCK_T = type(threading.Lock())
_RLOCK_T = type(threading.RLock())

ACTIVE: 'Scheduler | None' = None      # the scheduler of the trial in progress (None: locks behave sequentially)
_TL = threading.local()                # .me = _T of the current worker thread


class SchedAbort(BaseException):
    """Raised inside worker threads to unwind them after a fatal scheduling event."""


# ---------------------------------------------------------------------------
# cooperative locks
# ---------------------------------------------------------------------------
class CoopLock:
    """Stand-in for `threading.Lock` (reentrant=False) / `threading.RLock` (reentrant=True)."""
    _n = 0

    def __init__(self, reentrant: bool, label: str = ''):
        self.reentrant = reentrant
        self.owner = None        # _T, or 'main' outside any scheduler
        self.count = 0
        self.label = label or f'lock{CoopLock._n}'
        CoopLock._n += 1

    def _me(self):
        return getattr(_TL, 'me', None) or 'main'

    def free_for(self, t) -> bool:
        return self.owner is None or (self.reentrant and self.owner is t)

    def acquire(self, blocking=True, timeout=-1):
        me = self._me()
        s = ACTIVE
        while True:
            if self.owner is None:
                self.owner, self.count = me, 1
                break
            if self.reentrant and self.owner is me:
                self.count += 1
                break
            if not blocking:
                return False
            if s is None or me == 'main':
                raise RuntimeError(f'sequential code blocks forever on {self.label} (held by {self.owner})')
            me.waiting = self
            s.yield_point(me, 'block')
        if me != 'main':
            me.waiting = None
            if s is not None:
                s.lock_event(me, 'acq', self)
        return True

    def release(self):
        me = self._me()
        if self.owner is not me:
            raise RuntimeError(f'release of {self.label} by a thread that does not hold it')
        self.count -= 1
        if self.count == 0:
            self.owner = None
        if me != 'main' and ACTIVE is not None:
            ACTIVE.lock_event(me, 'rel', self)

    def locked(self):
        return self.owner is not None

    __enter__ = acquire

    def __exit__(self, *a):
        self.release()

    def __repr__(self):
        return f'<CoopLock {self.label} owner={getattr(self.owner, "tid", self.owner)} count={self.count}>'


def install_coop_locks(prefix: str = 'beartype') -> dict:
    """Replace every Lock/RLock reachable as a global of a `prefix` module or as an attribute of an instance of a
    class defined in a `prefix` module. Returns label -> CoopLock; labels are `<module>:<global>` and
    `<module>:<global holding the instance>.<attribute>` (`<module>:<Class>#<k>.<attribute>` for anonymous instances)."""
    seen: dict[int, CoopLock] = {}
    out: dict[str, CoopLock] = {}
    keep = []

    def coop(old, label):
        c = seen.get(id(old))
        if c is None:
            if isinstance(old, _LOCK_T) and old.locked():
                raise RuntimeError(f'{label} is held while installing cooperative locks')
            c = seen[id(old)] = CoopLock(isinstance(old, _RLOCK_T), label)
            out[label] = c
            keep.append(old)
        return c
    mods = [(n, m) for n, m in sorted(sys.modules.items())
            if m is not None and (n == prefix or n.startswith(prefix + '.'))]
    owner_name: dict[int, str] = {}
    for mname, mod in mods:
        for k, v in list(vars(mod).items()):
            if isinstance(v, (_LOCK_T, _RLOCK_T)):
                setattr(mod, k, coop(v, f'{mname}:{k}'))
            elif getattr(type(v), '__module__', '').startswith(prefix) and not isinstance(v, type):
                owner_name.setdefault(id(v), f'{mname}:{k}')
    anon = 0
    for o in gc.get_objects():
        cls = type(o)
        m = getattr(cls, '__module__', None)
        if not isinstance(m, str) or not (m == prefix or m.startswith(prefix + '.')):
            continue
        names = []
        for c in cls.__mro__:
            sl = c.__dict__.get('__slots__', ())
            names.extend([sl] if isinstance(sl, str) else sl)
        d = getattr(o, '__dict__', None)
        if isinstance(d, dict):
            names.extend(d)
        for n in names:
            try:
                v = getattr(o, n)
            except Exception:
                continue
            if isinstance(v, (_LOCK_T, _RLOCK_T)):
                own = owner_name.get(id(o))
                if own is None:
                    anon += 1
                    own = f'{m}:{cls.__name__}#{anon}'
                try:
                    setattr(o, n, coop(v, f'{own}.{n}'))
                except Exception:
                    pass
    install_coop_locks.keep = keep   # the replaced locks stay alive: ids stay unique
    return out


# ---------------------------------------------------------------------------
# schedules ("choosers")
# ---------------------------------------------------------------------------
class Chooser:
    """choose(sched, me, enabled, kind) -> the thread that runs next. `me` may be
    disabled (blocked / finished) in which case another thread must be returned."""

    def choose(self, s, me, enabled, kind):
        raise NotImplementedError

    @staticmethod
    def _keep_or(me, enabled, order):
        if me in enabled:
            return me
        for tid in order:
            for t in enabled:
                if t.tid == tid:
                    return t
        return enabled[0]


class Serial(Chooser):
    """No preemption: a thread runs until it finishes or blocks; then the first enabled in `order`."""

    def __init__(self, order):
        self.order = list(order)

    def choose(self, s, me, enabled, kind):
        if me is None:
            return self._keep_or(None, enabled, self.order)
        return self._keep_or(me, enabled, self.order)


class Preempt(Chooser):
    """Preemption-bounded: like Serial(order) except at the given preemption points.
    A point is [tid, counter, n, to]: when thread `tid` reaches the n-th event of kind
    `counter` ('focus' = yield point in a focus file, 'any' = any yield point, 'lock' = lock acquire/release,
    '@<file relative to the traced tree>:<line>[:<instruction offset>]' = n-th visit of that focus location)
    it is preempted in favour of thread `to` (None = next enabled in order after it). When the running thread cannot
    continue (start, blocked, finished) the next thread is taken from `inv` (recorded choices), else from `order`."""

    def __init__(self, order, points, prefix='', inv=None):
        self.order = list(order)
        self.inv = list(inv) if inv else []      # recorded choices at involuntary switches (start / blocked / finished)
        self.points = {}
        self.locpoints = {}
        for tid, counter, n, to in points:
            if counter.startswith('@'):
                parts = counter[1:].split(':')
                loc = (prefix + parts[0],) + tuple(int(x) for x in parts[1:])
                self.locpoints.setdefault((tid, loc, n), to)
            else:
                self.points.setdefault((tid, counter, n), to)

    def choose(self, s, me, enabled, kind):
        if me is None or me not in enabled:
            if self.inv:
                tid = self.inv.pop(0)
                for t in enabled:
                    if t.tid == tid:
                        return t
            return self._keep_or(None, enabled, self.order)
        pts = self.points
        hit = None
        if (me.tid, 'any', me.n_any) in pts:
            hit = pts.pop((me.tid, 'any', me.n_any))
        elif kind == 'focus' or kind == 'lock':
            if (me.tid, 'focus', me.n_focus) in pts:
                hit = pts.pop((me.tid, 'focus', me.n_focus))
            elif kind == 'lock' and (me.tid, 'lock', me.n_lock) in pts:
                hit = pts.pop((me.tid, 'lock', me.n_lock))
            elif kind == 'focus' and self.locpoints and (me.tid, me.last, me.loc_n) in self.locpoints:
                hit = self.locpoints.pop((me.tid, me.last, me.loc_n))
            else:
                return me
        else:
            return me
        to = hit
        others = [t for t in enabled if t is not me]
        if not others:
            return me
        for t in others:
            if t.tid == to:
                return t
        k = self.order.index(me.tid) if me.tid in self.order else 0
        rot = self.order[k + 1:] + self.order[:k]
        return self._keep_or(None, others, rot)


class PCT(Chooser):
    """PCT (Burckhardt et al.): random distinct priorities; the highest-priority enabled thread runs;
    at each of the d-1 change points (indices into the stream of focus events) the running thread's
    priority drops below all others."""

    def __init__(self, prios, change_points):
        self.prios = list(prios)
        self.cps = sorted(change_points)
        self.low = 0
        self.nf = 0

    def choose(self, s, me, enabled, kind):
        if me is not None and kind in ('focus', 'lock'):
            self.nf += 1
            while self.cps and self.cps[0] <= self.nf:
                self.cps.pop(0)
                self.low -= 1
                self.prios[me.tid] = self.low
        return max(enabled, key=lambda t: self.prios[t.tid])


class RandomWalk(Chooser):
    """Switch with probability p at focus/lock events, q elsewhere."""

    def __init__(self, seed, p=0.2, q=0.0005):
        self.rng = random.Random(seed)
        self.p, self.q = p, q

    def choose(self, s, me, enabled, kind):
        if me is None or me not in enabled:
            return self.rng.choice(enabled)
        if len(enabled) > 1 and self.rng.random() < (self.p if kind in ('focus', 'lock') else self.q):
            return self.rng.choice([t for t in enabled if t is not me])
        return me


class Replay(Chooser):
    """Follow a recorded run-length encoded schedule; `diverged` is set when the recorded thread cannot run."""

    def __init__(self, rle):
        self.rle = [list(x) for x in rle]
        self.i = 0
        self.diverged = None

    def choose(self, s, me, enabled, kind):
        while self.i < len(self.rle) and self.rle[self.i][1] <= 0:
            self.i += 1
        if self.i < len(self.rle):
            tid = self.rle[self.i][0]
            self.rle[self.i][1] -= 1
            for t in enabled:
                if t.tid == tid:
                    return t
            if self.diverged is None:
                self.diverged = f'decision {s.decisions}: recorded thread {tid} is not enabled'
        elif self.diverged is None and len(enabled) > 1:
            self.diverged = f'decision {s.decisions}: recorded schedule exhausted'
        return self._keep_or(me, enabled, [])


def make_chooser(spec, prefix='') -> Chooser:
    k = spec[0]
    if k == 'serial':
        return Serial(spec[1])
    if k == 'preempt':
        return Preempt(spec[1], spec[2], prefix, spec[3] if len(spec) > 3 else None)
    if k == 'pct':
        return PCT(spec[1], spec[2])
    if k == 'random':
        return RandomWalk(*spec[1:])
    if k == 'replay':
        return Replay(spec[1])
    raise ValueError(spec)


# ---------------------------------------------------------------------------
# the scheduler
# ---------------------------------------------------------------------------
class _Worker:
    """A pooled OS thread: waits on `wake`, runs `job`, waits again (thread start-up is the dominant cost of a trial)."""

    def __init__(self):
        self.wake = threading.Semaphore(0)
        self.job = None
        self.thread = threading.Thread(target=self._loop, daemon=True)
        self.thread.start()

    def _loop(self):
        while True:
            self.wake.acquire()
            job, self.job = self.job, None
            if job is None:
                return
            job()


_POOL: list = []


class _T:
    __slots__ = ('tid', 'fn', 'sem', 'worker', 'done', 'waiting', 'result', 'error', 'n_any', 'n_focus', 'n_lock', 'last',
                 'locs', 'loc_n', 'busy')

    def __init__(self, tid, fn):
        self.tid, self.fn = tid, fn
        self.worker = None
        self.sem = None          # = worker.wake: the token this thread parks on
        self.done = False
        self.waiting = None
        self.result = None
        self.error = None
        self.n_any = self.n_focus = self.n_lock = 0
        self.last = None
        self.locs = {}           # focus location (file, line[, instruction offset]) -> visits so far
        self.loc_n = 0           # visits of the location of the current focus event
        self.busy = False        # inside the scheduler: code run from here (GC/weakref callbacks) is not a yield point

    def __repr__(self):
        return f'T{self.tid}'


class Scheduler:
    def __init__(self, chooser: Chooser, trace_prefix: str, focus_files=(), opcode_files=(), max_steps=3_000_000,
                 lock_yields=True):
        self.chooser = chooser
        self.prefix = trace_prefix
        self.focus = {str(f) for f in focus_files}
        self.opcode = {str(f) for f in opcode_files}
        self.max_steps = max_steps
        self.lock_yields = lock_yields
        self.threads: list[_T] = []
        self.rle: list[list[int]] = []
        self.decisions = 0
        self.switches = 0
        self.fatal = None
        self.main_sem = threading.Semaphore(0)
        self.lock_log: list = []          # (tid, 'acq'|'rel', label)
        self.switch_log: list = []        # [from tid | None, its yield-point count, kind, to tid] per context switch
        self._fcache: dict = {}

    def spawn(self, fn):
        t = _T(len(self.threads), fn)
        self.threads.append(t)
        return t

    # -- decisions ---------------------------------------------------------
    def _enabled(self):
        return [t for t in self.threads if not t.done and (t.waiting is None or t.waiting.free_for(t))]

    def _record(self, t):
        self.decisions += 1
        if self.rle and self.rle[-1][0] == t.tid:
            self.rle[-1][1] += 1
        else:
            self.rle.append([t.tid, 1])

    def _die(self, kind, me):
        """Fatal scheduling event: remember it, wake everybody so that they unwind."""
        if self.fatal is None:
            self.fatal = {'kind': kind, 'threads': [
                {'tid': t.tid, 'done': t.done, 'waiting_for': t.waiting.label if t.waiting else None,
                 'holder': (getattr(t.waiting.owner, 'tid', None) if t.waiting else None), 'at': t.last}
                for t in self.threads]}
        for t in self.threads:
            if t is not me and not t.done:
                t.sem.release()
        self.main_sem.release()
        raise SchedAbort()

    def yield_point(self, me: _T, kind: str):
        if self.fatal is not None:
            raise SchedAbort()
        if me.busy:
            return
        me.busy = True
        try:
            self._yield_point(me, kind)
        finally:
            me.busy = False

    def _yield_point(self, me: _T, kind: str):
        me.n_any += 1
        if kind == 'focus':
            me.n_focus += 1
            me.loc_n = me.locs[me.last] = me.locs.get(me.last, 0) + 1
        elif kind == 'lock':
            me.n_focus += 1
            me.n_lock += 1
        if self.decisions >= self.max_steps:
            self._die('step-limit', me)
        enabled = self._enabled()
        if not enabled:
            self._die('deadlock', me)
        nxt = self.chooser.choose(self, me, enabled, kind)
        self._record(nxt)
        if nxt is not me:
            self.switches += 1
            self.switch_log.append([me.tid, me.n_any, kind, nxt.tid])
            nxt.sem.release()
            me.sem.acquire()
            if self.fatal is not None:
                raise SchedAbort()

    def lock_event(self, me, what, lock):
        self.lock_log.append((me.tid, what, lock.label))
        if self.lock_yields and self.fatal is None:
            self.yield_point(me, 'lock')

    # -- tracing -----------------------------------------------------------
    def _file_kind(self, fn):
        k = self._fcache.get(fn)
        if k is None:
            if not fn.startswith(self.prefix):
                k = 0
            elif fn in self.opcode:
                k = 3
            elif fn in self.focus:
                k = 2
            else:
                k = 1
            self._fcache[fn] = k
        return k

    def _make_tracer(self, me: _T):
        yp = self.yield_point
        fk = self._file_kind

        def local_line(frame, event, arg):
            if event == 'line':
                me.last = (frame.f_code.co_filename, frame.f_lineno)
                yp(me, 'any')
            return local_line

        def local_focus(frame, event, arg):
            if event == 'line':
                me.last = (frame.f_code.co_filename, frame.f_lineno)
                yp(me, 'focus')
            return local_focus

        def local_opcode(frame, event, arg):
            if event == 'opcode':
                me.last = (frame.f_code.co_filename, frame.f_lineno, frame.f_lasti)
                yp(me, 'focus')
            return local_opcode

        def global_trace(frame, event, arg):
            k = fk(frame.f_code.co_filename)
            if k == 0 or me.busy:
                return None
            if k == 3:
                frame.f_trace_opcodes = True
                return local_opcode
            me.last = (frame.f_code.co_filename, frame.f_lineno)
            yp(me, 'focus' if k == 2 else 'any')
            return local_focus if k == 2 else local_line
        return global_trace

    def _body(self, me: _T):
        _TL.me = me
        if self.fatal is None:
            sys.settrace(self._make_tracer(me))
            try:
                me.result = me.fn()
            except SchedAbort:
                pass
            except BaseException as e:   # noqa: BLE001 - outcome of the operation under test
                me.error = e
            finally:
                sys.settrace(None)
        me.done = True
        _TL.me = None
        if self.fatal is not None:
            self.main_sem.release()
            return
        alive = [t for t in self.threads if not t.done]
        if not alive:
            self.main_sem.release()
            return
        enabled = self._enabled()
        if not enabled:
            try:
                self._die('deadlock', me)
            except SchedAbort:
                return
        nxt = self.chooser.choose(self, me, enabled, 'done')
        self._record(nxt)
        self.switches += 1
        self.switch_log.append([me.tid, me.n_any, 'done', nxt.tid])
        nxt.sem.release()

    def run(self, hang_timeout=120.0):
        global ACTIVE
        ACTIVE = self
        try:
            for t in self.threads:
                t.worker = _POOL.pop() if _POOL else _Worker()
                t.sem = t.worker.wake
                t.worker.job = (lambda t=t: self._body(t))
            first = self.chooser.choose(self, None, self._enabled(), 'start')
            self._record(first)
            self.switch_log.append([None, 0, 'start', first.tid])
            first.sem.release()
            if not self.main_sem.acquire(timeout=hang_timeout):
                self.fatal = self.fatal or {'kind': 'hang', 'threads': [
                    {'tid': t.tid, 'done': t.done, 'at': t.last} for t in self.threads]}
                return self            # the stuck workers are abandoned (daemon threads)
            if self.fatal is None:
                _POOL.extend(t.worker for t in self.threads)
            else:
                # woken threads unwind with SchedAbort; threads never started still hold a job: let them drain
                deadline = 50
                while deadline and not all(t.done for t in self.threads):
                    for t in self.threads:
                        if not t.done:
                            t.sem.release()
                    threading.Event().wait(0.02)
                    deadline -= 1
        finally:
            ACTIVE = None
        return self
