"""./check dispatcher."""
import argparse
import importlib
import json
import os
import sys
import traceback

from .common import Check, LEAN, lean_build


def setup() -> int:
    """MANIFEST.setup_cmd: regenerate every Extracted/*.lean from /repo, then build the whole Lean library."""
    from . import extract
    extract.extract_all()
    ok, log = lean_build(['BearVerif', 'beardriver', 'c08driver', 'c05driver', 'c06driver'])  # root imports every Core/Lemmas/Props/Driver module; native Bear driver
    print(log[-3000:])
    return 0 if ok else 1


def main() -> int:
    ap = argparse.ArgumentParser()
    ap.add_argument('pid', nargs='?')
    ap.add_argument('--tier', default=os.environ.get('VERIF_TIER', 'quick'), choices=['quick', 'thorough'])
    ap.add_argument('--replay')
    ap.add_argument('--setup', action='store_true')
    a = ap.parse_args()
    if a.setup:
        return setup()
    seed = int(os.environ.get('VERIF_SEED', '0') or 0)
    mod = importlib.import_module(f'.props.{a.pid.lower()}', __package__)
    from . import extract
    extract.extract_all()
    if a.replay:
        return mod.replay(json.load(open(a.replay)))
    ck = Check(a.pid, a.tier, seed)
    try:
        return mod.main(ck)
    except Exception:
        traceback.print_exc()
        print(f'[{a.pid}] harness error (exit 2: no verdict)')
        return 2


if __name__ == '__main__':
    sys.exit(main())
