"""C05 — abstraction of real Python ASTs to the mini-AST of lean/BearVerif/Core/ClawAst.lean and the
in-process run of the REAL BeartypeNodeTransformer (built exactly as
beartype.claw._importlib._clawimpfileloader.BeartypeSourceFileLoader.source_to_code builds it).

Statement forms (python lists, serialised with common.sexp):
  (fn line async name (DECO…) typed (E…) (STMT…))      (cl line name (DECO…) (E…) (STMT…))
  (aa line TARGET E (annNames…) E|none)                 (as line (name|-…) E (callee…)|none)
  (im line ((a b c) …))  (fr line level (mod…) ((src trg)…))  (fu line)  (doc line)
  (cp line kind (E…) ((STMT…)…))  (si line (E…))
  ADDED by the hook:  (bi line)   (die line TARGET E conf)   DECO = (d E (names…)) | (bt line conf)
  E = (e id pure line);  TARGET = (n name) | (a E attr) | (s E E)
"""
from __future__ import annotations

import ast

STAR_MODULE = 'beartype.claw._ast._clawaststar'
BT_NAME = '__beartype__'
DIE_NAME = '__die_if_unbearable_beartype__'
STATE_NAME = '__claw_state_beartype__'
COMPOUND = {'If': 'if', 'For': 'for', 'AsyncFor': 'asyncfor', 'While': 'while', 'Try': 'try', 'TryStar': 'trystar',
            'With': 'with', 'AsyncWith': 'asyncwith', 'Match': 'match'}
_IMPURE = (ast.Call, ast.Await, ast.Yield, ast.YieldFrom, ast.NamedExpr)
LOC = ('lineno', 'col_offset', 'end_lineno', 'end_col_offset')


def loc(node):
    return tuple(getattr(node, a, None) for a in LOC)


def dotted(node) -> list[str]:
    """independent restatement of beartype._util.ast.utilastget.get_node_attr_basenames"""
    names = []
    while isinstance(node, ast.Attribute):
        names.append(node.attr)
        node = node.value
    if isinstance(node, ast.Name):
        names.append(node.id)
        return names[::-1]
    return []


def is_typed(node) -> bool:
    a = node.args
    every = list(a.posonlyargs) + list(a.args) + list(a.kwonlyargs) + [x for x in (a.vararg, a.kwarg) if x]
    return bool(node.returns) or any(x.annotation for x in every)


class Abstractor:
    """Assigns an id to every original expression (by object identity: the transformer mutates the tree in
    place and re-uses the very same expression objects) and abstracts trees before/after the transformation."""

    def __init__(self, module_name: str):
        self.module_name = module_name
        self.ids: dict[int, tuple] = {}       # id(node) -> E
        self.nodes: dict[int, ast.AST] = {}   # eid -> node
        self.by_dump: dict[str, tuple] = {}
        self.orig_loc: dict[int, tuple] = {}  # id(node) -> location before the transformation
        self.keep: list = []                  # keeps every registered node alive (ids stay unique)
        self.problems: list[str] = []         # malformed added nodes / location defects seen while abstracting
        self.create = True

    # -- expressions -------------------------------------------------------
    def e(self, node):
        k = id(node)
        if k in self.ids:
            return self.ids[k]
        if not self.create:
            d = ast.dump(node, include_attributes=True)
            if d in self.by_dump:          # a copy of an original expression
                return self.by_dump[d]
            self.problems.append(f'unknown expression in output: {ast.unparse(node)!r}')
            return ['e', 999999, 0, getattr(node, 'lineno', 0)]
        eid = len(self.ids) + 1
        pure = 0 if any(isinstance(n, _IMPURE) for n in ast.walk(node)) else 1
        v = ['e', eid, pure, node.lineno]
        self.ids[k] = v
        self.nodes[eid] = node
        self.by_dump.setdefault(ast.dump(node, include_attributes=True), v)
        self.keep.append(node)
        return v

    def exprs_of(self, node, skip=()):
        """direct expression children (field order), for heads / simple statements"""
        out = []
        for name, val in ast.iter_fields(node):
            if name in skip:
                continue
            vals = val if isinstance(val, list) else [val]
            for x in vals:
                if isinstance(x, ast.expr):
                    out.append(self.e(x))
                elif isinstance(x, (ast.arguments, ast.withitem, ast.keyword, ast.excepthandler, ast.match_case)):
                    out.extend(self.exprs_of(x, skip=('body',)))
                elif isinstance(x, ast.arg) and x.annotation is not None:
                    out.append(self.e(x.annotation))
        return out

    # -- added nodes ---------------------------------------------------------
    def conf_kw_ok(self, kw) -> bool:
        v = kw.value
        return (kw.arg == 'conf' and isinstance(v, ast.Subscript) and isinstance(v.value, ast.Attribute)
                and v.value.attr == 'module_name_to_beartype_conf' and isinstance(v.value.value, ast.Name)
                and v.value.value.id == STATE_NAME and isinstance(v.slice, ast.Constant)
                and v.slice.value == self.module_name and isinstance(v.ctx, ast.Load))

    def check_new_locs(self, node, want, what):
        """every freshly made node below `node` carries the location `want` of its sibling"""
        for n in ast.walk(node):
            if id(n) in self.orig_loc or not hasattr(n, '_attributes') or 'lineno' not in n._attributes:
                continue
            if loc(n) != want:
                self.problems.append(f'loc:{what}: new {type(n).__name__} node at {loc(n)} but its sibling is at {want}')
                return

    def deco(self, d, owner):
        if isinstance(d, ast.Name) and d.id == BT_NAME and id(d) not in self.orig_loc:
            self.check_new_locs(d, loc(owner), 'decorator')
            return ['bt', getattr(d, 'lineno', 0), 0]
        if (isinstance(d, ast.Call) and isinstance(d.func, ast.Name) and d.func.id == BT_NAME
                and id(d) not in self.orig_loc):
            if d.args or len(d.keywords) != 1 or not self.conf_kw_ok(d.keywords[0]):
                self.problems.append(f'malformed decorator {ast.unparse(d)!r}')
            self.check_new_locs(d, loc(owner), 'decorator')
            return ['bt', getattr(d, 'lineno', 0), 1]
        return ['d', self.e(d), dotted(d.func if isinstance(d, ast.Call) else d)]

    def target(self, t, load=False):
        if isinstance(t, ast.Name):
            return ['n', t.id]
        if isinstance(t, ast.Attribute):
            return ['a', self.e(t.value), t.attr]
        if isinstance(t, ast.Subscript):
            return ['s', self.e(t.value), self.e(t.slice)]
        self.problems.append(f'unexpected target {ast.dump(t)}')
        return ['n', '?']

    def added_stmt(self, s, prev, nxt):
        """(bi …) / (die …) when `s` is a statement made by the hook, else None"""
        if id(s) in self.orig_loc:
            return None
        if isinstance(s, ast.ImportFrom) and s.module == STAR_MODULE:
            if s.level != 0 or [(a.name, a.asname) for a in s.names] != [('*', None)]:
                self.problems.append(f'malformed import {ast.unparse(s)!r}')
            if nxt is not None:
                self.check_new_locs(s, loc(nxt), 'import')
            return ['bi', getattr(s, 'lineno', 0)]
        if (isinstance(s, ast.Expr) and isinstance(s.value, ast.Call) and isinstance(s.value.func, ast.Name)
                and s.value.func.id == DIE_NAME):
            c = s.value
            kws = [k.arg for k in c.keywords]
            if len(c.args) != 2 or kws not in (['exception_prefix'], ['conf', 'exception_prefix']) or \
                    (kws[0] == 'conf' and not self.conf_kw_ok(c.keywords[0])) or \
                    not isinstance(c.keywords[-1].value, ast.Constant) or not isinstance(c.keywords[-1].value.value, str):
                self.problems.append(f'malformed check {ast.unparse(s)!r}')
                return ['die', getattr(s, 'lineno', 0), ['n', '?'], ['e', 999999, 0, 0], 0]
            pith = c.args[0]
            if not isinstance(getattr(pith, 'ctx', None), ast.Load):
                self.problems.append(f'check reads its first argument in a non-load context: {ast.unparse(s)!r}')
            if prev is not None:
                self.check_new_locs(s, loc(prev), 'check')
            return ['die', getattr(s, 'lineno', 0), self.target(pith), self.e(c.args[1]), 1 if 'conf' in kws else 0]
        return None

    # -- statements ------------------------------------------------------------
    def body(self, stmts):
        out = []
        for i, s in enumerate(stmts):
            if not self.create:
                a = self.added_stmt(s, stmts[i - 1] if i else None, stmts[i + 1] if i + 1 < len(stmts) else None)
                if a is not None:
                    out.append(a)
                    continue
            out.append(self.stmt(s))
        return out

    def stmt(self, s):
        ln = getattr(s, 'lineno', 0)
        if isinstance(s, (ast.FunctionDef, ast.AsyncFunctionDef)):
            return ['fn', ln, 1 if isinstance(s, ast.AsyncFunctionDef) else 0, s.name,
                    [self.deco(d, s) for d in s.decorator_list], 1 if is_typed(s) else 0,
                    self.exprs_of(s.args) + ([self.e(s.returns)] if s.returns else []), self.body(s.body)]
        if isinstance(s, ast.ClassDef):
            return ['cl', ln, s.name, [self.deco(d, s) for d in s.decorator_list],
                    [self.e(b) for b in s.bases] + [self.e(k.value) for k in s.keywords], self.body(s.body)]
        if isinstance(s, ast.AnnAssign):
            return ['aa', ln, self.target(s.target), self.e(s.annotation), dotted(s.annotation),
                    self.e(s.value) if s.value is not None else 'none']
        if isinstance(s, ast.Assign):
            return ['as', ln, [t.id if isinstance(t, ast.Name) else '-' for t in s.targets], self.e(s.value),
                    dotted(s.value.func) if isinstance(s.value, ast.Call) else 'none']
        if isinstance(s, ast.Import):
            return ['im', ln, [a.name.split('.') for a in s.names]]
        if isinstance(s, ast.ImportFrom):
            if s.module == '__future__':
                return ['fu', ln]
            return ['fr', ln, s.level, s.module.split('.') if s.module else [],
                    [[a.name, a.asname or a.name] for a in s.names]]
        if isinstance(s, ast.Expr) and isinstance(s.value, ast.Constant):
            return ['doc', ln]
        kind = COMPOUND.get(type(s).__name__)
        if kind:
            bodies = []
            for name, val in ast.iter_fields(s):       # field order = the order NodeTransformer.generic_visit walks
                if name in ('body', 'orelse', 'finalbody'):
                    bodies.append(self.body(val))
                elif name in ('handlers', 'cases'):
                    for h in val:
                        bodies.append(self.body(h.body))
            return ['cp', ln, kind, self.exprs_of(s, skip=('body', 'orelse', 'finalbody')), bodies]
        if type(s).__name__ == 'TypeAlias':
            self.problems.append('PEP 695 type statement (outside the modelled grammar)')
        return ['si', ln, self.exprs_of(s)]

    def module(self, tree: ast.Module, create: bool):
        self.create = create
        if create:
            for n in ast.walk(tree):
                self.orig_loc[id(n)] = loc(n)
                self.keep.append(n)
        return self.body(tree.body)


# ---------------------------------------------------------------------------
def schema_sx(trie):
    """claw_state.node_scope_beforelist_global.schema_attr_basename_trie -> ((name TRIE)…)"""
    from beartype._conf.decorplace.confplacetrie import (
        BeartypeDecorPlaceInstanceTrie, BeartypeDecorPlacePackagesTrie, BeartypeDecorPlacePackageTrie,
        BeartypeDecorPlaceTypeTrie)
    kinds = {BeartypeDecorPlacePackagesTrie: 0, BeartypeDecorPlacePackageTrie: 1, BeartypeDecorPlaceTypeTrie: 2,
             BeartypeDecorPlaceInstanceTrie: 3}

    def t(x):
        if x is None:
            return 'leaf'
        return [kinds[type(x)], [[k, t(v)] for k, v in x.items()]]
    return [[k, t(v)] for k, v in trie.items()]


def real_schema():
    from beartype.claw._clawstate import claw_state
    return schema_sx(claw_state.node_scope_beforelist_global.schema_attr_basename_trie)


PLACES = {'FIRST': 'first', 'LAST': 'last', 'LAST_BEFORE_DECOR_HOSTILE': 'lbh'}


def conf_sx(conf, schema):
    from beartype._conf.confcommon import BEARTYPE_CONF_DEFAULT
    return [1 if conf.claw_is_pep526 else 0, PLACES[conf.claw_decor_place_func.name],
            PLACES[conf.claw_decor_place_type.name], 1 if conf == BEARTYPE_CONF_DEFAULT else 0, schema]


def transform(source: str, conf, module_name: str = 'pk.m', path: str = '<c05>'):
    """Parse, abstract, run the real transformer, abstract again, compile.
    Returns dict(orig=…, out=…|None, raised=cls|None, problems=[…], compile_error=str|None, abstractor, tree)."""
    from beartype.claw._ast.clawastmain import BeartypeNodeTransformer
    tree = compile(source, path, 'exec', ast.PyCF_ONLY_AST, dont_inherit=True, optimize=-1)
    ab = Abstractor(module_name)
    orig = ab.module(tree, create=True)
    res = {'orig': orig, 'out': None, 'raised': None, 'problems': ab.problems, 'compile_error': None,
           'abstractor': ab, 'tree': tree}
    try:
        new = BeartypeNodeTransformer(module_name=module_name, conf=conf).visit(tree)
    except Exception as e:
        res['raised'] = type(e).__name__
        return res
    res['tree'] = new
    res['out'] = ab.module(new, create=False)
    # every original node keeps its location
    for n in ast.walk(new):
        k = id(n)
        if k in ab.orig_loc and hasattr(n, 'lineno') and loc(n) != ab.orig_loc[k]:
            ab.problems.append(f'loc:moved: original {type(n).__name__} node moved from {ab.orig_loc[k]} to {loc(n)}')
            break
        if k not in ab.orig_loc and 'lineno' in getattr(n, '_attributes', ()) and not hasattr(n, 'lineno'):
            ab.problems.append(f'loc:missing: new {type(n).__name__} node without a location')
            break
    try:
        compile(new, path, 'exec', dont_inherit=True, optimize=-1)
    except Exception as e:
        res['compile_error'] = f'{type(e).__name__}: {e}'
    return res
