"""C15 — the real side: runs public-API operations of the real beartype on 2–3 threads under the
controlled scheduler (`harness/sched.py`) and, for reference, in every sequential order.

Run as `python -m harness.impl.c15_worker` with JSON on stdin:
  {"mode": "explore", "scenario": S, "seed": n, "gran": "line"|"opcode", "budget": {...}}
  {"mode": "replay",  "scenario": S, "gran": g, "rle": [[tid, n], ...]}

Scenario S = {"kind": str, "warm": bool, "threads": [[op, ...], ...], "queries": [name, ...]}
  op = ["conf", K]              BeartypeConf(**CONFS[K]) (kwargs rebuilt on every call)
     | ["typehint", H]          TypeHint(HINTS[H]())   (hint object rebuilt on every call: equal, not identical)
     | ["is_bearable", O, H]    is_bearable(OBJS[O](), HINTS[H]())
     | ["die_if", O, H]         die_if_unbearable(...)
     | ["is_subhint", H1, H2]
     | ["decorate", slot, H, K] slot := beartype(conf=CONFS[K])(def f(x: HINTS[H]) -> HINTS[H]: return x)
     | ["call", slot, O]        slot(OBJS[O]())
     | ["decor_factory", K]     beartype(conf=CONFS[K])   (the lock-free decorator memo)
     | ["pkg", name, K] | ["pkgs", [names], K] | ["all", K]      beartype.claw registrations
     | ["lookup", name]         get_package_conf_or_none(name)  (what the import hook consults)
     | ["enter", K] | ["exit"]  with beartyping(conf=CONFS[K]):  entered / left

Every trial runs in a child forked from ONE parent state (all beartype submodules imported, cooperative
locks installed, optional fixed warm-up executed), so that: (a) operations see "fresh" hints and
configurations in every trial, (b) the yield points reached depend on the schedule only, which makes a
recorded schedule a deterministic replay, (c) the sequential reference (the same operations merged into
one thread in EVERY order) starts from the same state.

Reported per trial: per-operation outcomes in canonical form (values, exception class names, identity
classes of returned singletons by first occurrence), final registry observation, pool-monitor events
(an item handed out by `KeyPool.acquire` while still held), scheduler fatal events (deadlock, hang).
"""
from __future__ import annotations

import importlib
import itertools
import json
import os
import pkgutil
import random
import select
import signal
import sys
import time
import traceback

REPO = os.environ.get('VERIF_REPO', '/repo')
PFX = REPO.rstrip('/') + '/beartype/'

# files whose every line (bytecode instruction with gran=opcode) is a "focus" yield point: the anchored
# synchronisation code of C15
FOCUS_REL = [
    '_util/cache/pool/utilcachepool.py', '_util/cache/pool/utilcachepoolinstance.py',
    '_util/cache/pool/utilcachepoollistfixed.py', '_util/cache/map/utilmapunbounded.py',
    '_util/cache/utilcachecall.py', '_util/cache/utilcacheobjattr.py', '_conf/confmain.py', 'door/_cls/doormeta.py',
    'claw/_clawstate.py', 'claw/_package/clawpkgmain.py', 'claw/_package/clawpkgtrie.py',
    'claw/_package/clawpkgcontext.py', 'claw/_importlib/clawimpmain.py', '_decor/decorcache.py',
    '_check/convert/_convcoerce.py',
]
FOCUS = [PFX + f for f in FOCUS_REL]


# ---------------------------------------------------------------------------
# vocabularies (JSON-addressable by key)
# ---------------------------------------------------------------------------
class UserA:
    pass


class UserB(UserA):
    pass


def _hints():
    import typing as t
    from beartype.vale import Is, IsAttr, IsEqual
    return {
        'list_int': lambda: list[int],
        'dict_str_list_A': lambda: dict[str, list[UserA]],
        'tuple_fixed': lambda: tuple[int, str, UserB],
        'tuple_var': lambda: tuple[UserA, ...],
        'union': lambda: t.Union[int, list[str], None],
        'opt_set': lambda: t.Optional[set[bytes]],
        'nested': lambda: list[dict[int, tuple[str, ...]]],
        'annot': lambda: t.Annotated[list[int], IsAttr['__class__', IsEqual[list]]],
        'literal': lambda: t.Literal['a', 7],
        'seq_union': lambda: t.Sequence[t.Union[int, str]],
        'type_A': lambda: type[UserA],
        'fwd': lambda: list['UserA'],
        'cls_A': lambda: UserA,
        'unhashable': lambda: t.Annotated[int, []],
    }


def _objs():
    return {
        'int': lambda: 3, 'str': lambda: 'a', 'none': lambda: None,
        'list_int': lambda: [1, 2, 3], 'list_str': lambda: ['a', 'b'], 'list_empty': lambda: [],
        'dict_ok': lambda: {'k': [UserA()]}, 'dict_bad': lambda: {'k': ['x']},
        'tuple_ok': lambda: (1, 's', UserB()), 'tuple_bad': lambda: (1, 2, 3), 'tuple_A': lambda: (UserA(), UserB()),
        'set_bytes': lambda: {b'x'}, 'nested_ok': lambda: [{1: ('a', 'b')}], 'nested_bad': lambda: [{1: (2,)}],
        'A': lambda: UserA(), 'clsB': lambda: UserB, 'clsint': lambda: int, 'seq_mixed': lambda: [1],
    }


def _confs():
    from beartype import BeartypeStrategy
    return {
        'K0': lambda: {},
        'K1': lambda: dict(is_debug=True),
        'K2': lambda: dict(is_debug=True, is_color=False, claw_skip_package_names=('skipme',)),
        'K2b': lambda: dict(claw_skip_package_names=('skipme',), is_color=False, is_debug=True),
        'K3': lambda: dict(strategy=BeartypeStrategy.On),
        'K4': lambda: dict(is_pep484_tower=True, violation_type=ValueError),
        'K5': lambda: dict(warning_cls_on_decorator_exception=UserWarning),
        'K6': lambda: dict(claw_skip_package_names=('pa.sub',)),
    }


HINTS = OBJS = CONFS = None
POOL_EVENTS: list = []
_HELD: dict = {}


# ---------------------------------------------------------------------------
# set-up of the parent state
# ---------------------------------------------------------------------------
def setup(warm: bool):
    global HINTS, OBJS, CONFS
    sys.path.insert(0, REPO)
    import warnings
    warnings.simplefilter('ignore')
    import beartype
    assert os.path.realpath(beartype.__file__).startswith(os.path.realpath(REPO)), beartype.__file__
    for m in pkgutil.walk_packages(beartype.__path__, 'beartype.'):
        try:
            importlib.import_module(m.name)
        except BaseException:  # noqa: BLE001 optional dependencies
            pass
    HINTS, OBJS, CONFS = _hints(), _objs(), _confs()
    if warm:
        # fixed warm-up on OTHER hints/configurations: lazy imports and global one-time initialisation happen here
        from beartype import BeartypeConf, beartype as bt
        from beartype.door import TypeHint, die_if_unbearable, is_bearable
        import typing as t
        c = BeartypeConf(is_debug=False, is_color=True)
        for h, o in ((list[float], [1.0]), (dict[bytes, set[float]], {}), (t.Union[float, list[bytes]], 2.0),
                     (tuple[float, bytes], (1.0, b'')), (t.Optional[tuple[float, ...]], None)):
            is_bearable(o, h)
            is_bearable(o, h, conf=c)
            try:
                die_if_unbearable('nope', h)
            except Exception:
                pass
            TypeHint(h)

            @bt
            def f(x: h) -> h:
                return x
            f(o)
    from .. import sched
    locks = sched.install_coop_locks('beartype')
    _install_pool_monitor()
    return locks


def _install_pool_monitor():
    """Observe KeyPool.acquire/release without touching beartype: an item returned by acquire() while the
    monitor still lists it as held (not released since) is shared between two in-flight operations."""
    from beartype._util.cache.pool import utilcachepool as up, utilcachepoolinstance as ui
    from .. import sched
    real_acq, real_rel = up.KeyPool.acquire, up.KeyPool.release

    def tid():
        me = getattr(sched._TL, 'me', None)
        return me.tid if me is not None else -1

    def acquire(self, *a, **k):
        item = real_acq(self, *a, **k)
        h = _HELD.get(id(item))
        if h is not None:
            POOL_EVENTS.append(['held-twice', type(item).__name__, h[0], tid()])
        _HELD[id(item)] = (tid(), item)
        return item

    def release(self, item, *a, **k):
        if 'item' in k:
            item = k.pop('item')
        _HELD.pop(id(item), None)
        return real_rel(self, item, *a, **k)
    up.KeyPool.acquire, up.KeyPool.release = acquire, release
    ui._instance_pool_acquire = ui._instance_pool.acquire
    ui._instance_pool_release = ui._instance_pool.release


# ---------------------------------------------------------------------------
# operations
# ---------------------------------------------------------------------------
class Ctx:
    def __init__(self, nthreads):
        self.slots = {}
        self.stacks = [[] for _ in range(nthreads)]
        self.objs = []        # raw singleton results, for identity classes


def conf_label(c):
    if c is None:
        return 'none'
    return f'dbg={int(c.is_debug)},warn={getattr(c.warning_cls_on_decorator_exception, "__name__", None)},' \
           f'skip={",".join(c.claw_skip_package_names)},strategy={c.strategy.name},tower={int(c.is_pep484_tower)}'


def do_op(op, ctx: Ctx, tid: int):
    """Execute one operation against the real beartype; canonical outcome (never raises)."""
    from beartype import BeartypeConf, beartype as bt
    k = op[0]
    try:
        if k == 'conf':
            r = BeartypeConf(**CONFS[op[1]]())
            ctx.objs.append(r)
            return ['obj', len(ctx.objs) - 1, 'BeartypeConf']
        if k == 'typehint':
            from beartype.door import TypeHint
            r = TypeHint(HINTS[op[1]]())
            ctx.objs.append(r)
            return ['obj', len(ctx.objs) - 1, type(r).__name__]
        if k == 'is_bearable':
            from beartype.door import is_bearable
            return ['val', bool(is_bearable(OBJS[op[1]](), HINTS[op[2]]()))]
        if k == 'die_if':
            from beartype.door import die_if_unbearable
            die_if_unbearable(OBJS[op[1]](), HINTS[op[2]]())
            return ['ok']
        if k == 'is_subhint':
            from beartype.door import is_subhint
            return ['val', bool(is_subhint(HINTS[op[1]](), HINTS[op[2]]()))]
        if k == 'decorate':
            h = HINTS[op[2]]()

            def f(x: h) -> h:
                return x
            ctx.slots[op[1]] = bt(conf=BeartypeConf(**CONFS[op[3]]()))(f)
            return ['ok']
        if k == 'call':
            f = ctx.slots.get(op[1])
            if f is None:
                return ['skipped']
            r = f(OBJS[op[2]]())
            return ['val', type(r).__name__]
        if k == 'decor_factory':
            d = bt(conf=BeartypeConf(**CONFS[op[1]]()))
            return ['val', callable(d)]
        if k in ('pkg', 'pkgs', 'all', 'enter'):
            from beartype.claw import beartype_all, beartype_package, beartype_packages, beartyping
            conf = BeartypeConf(**CONFS[op[-1]]())
            if k == 'pkg':
                beartype_package(op[1], conf=conf)
            elif k == 'pkgs':
                beartype_packages(tuple(op[1]), conf=conf)
            elif k == 'all':
                beartype_all(conf=conf)
            else:
                cm = beartyping(conf=conf)
                cm.__enter__()
                ctx.stacks[tid].append(cm)
            return ['ok']
        if k == 'exit':
            if not ctx.stacks[tid]:
                return ['skipped']
            ctx.stacks[tid].pop().__exit__(None, None, None)
            return ['ok']
        if k == 'lookup':
            from beartype.claw._package.clawpkgtrie import get_package_conf_or_none
            return ['val', conf_label(get_package_conf_or_none(op[1]))]
        return ['bad-op']
    except Exception as e:  # noqa: BLE001 outcome
        return ['exc', type(e).__name__, str(e)[:160]]


def canon(per_thread, ctx: Ctx, queries):
    """Canonical, process-independent form of a run: identity classes by first occurrence in (thread, op) order;
    exception messages dropped (kept aside for the report)."""
    ids: dict[int, int] = {}
    out = []
    for outs in per_thread:
        row = []
        for o in outs:
            if o[0] == 'obj':
                i = ids.setdefault(id(ctx.objs[o[1]]), len(ids))
                row.append(['obj', i, o[2]])
            elif o[0] == 'exc':
                row.append(['exc', o[1]])
            else:
                row.append(o)
        out.append(row)
    final = []
    if queries:
        from beartype.claw._clawstate import claw_state
        from beartype.claw._package.clawpkgtrie import get_package_conf_or_none
        hook = claw_state.beartype_path_hook is not None and claw_state.beartype_path_hook in sys.path_hooks
        final = ['hook' if hook else 'nohook'] + [conf_label(get_package_conf_or_none(q)) for q in queries]
    return {'threads': out, 'final': final}


def merges(lens):
    """all interleavings of thread op sequences at OPERATION granularity: sequences of thread ids"""
    pool = [t for t, n in enumerate(lens) for _ in range(n)]
    return sorted(set(itertools.permutations(pool)))


# ---------------------------------------------------------------------------
# one trial, in the forked child
# ---------------------------------------------------------------------------
def child_sequential(sc, order):
    ctx = Ctx(len(sc['threads']))
    pos = [0] * len(sc['threads'])
    per = [[] for _ in sc['threads']]
    for t in order:
        per[t].append(do_op(sc['threads'][t][pos[t]], ctx, t))
        pos[t] += 1
    return {'outcome': canon(per, ctx, sc.get('queries')), 'pool': list(POOL_EVENTS),
            'messages': [o[2] for row in per for o in row if o[0] == 'exc']}


def child_concurrent(sc, chooser_spec, gran):
    from .. import sched
    ctx = Ctx(len(sc['threads']))
    s = sched.Scheduler(sched.make_chooser(chooser_spec), PFX, focus_files=FOCUS,
                        opcode_files=FOCUS if gran == 'opcode' else ())
    per = [[] for _ in sc['threads']]

    def body(t):
        def run():
            for op in sc['threads'][t]:
                per[t].append(do_op(op, ctx, t))
        return run
    for t in range(len(sc['threads'])):
        s.spawn(body(t))
    # per-file focus counters (for stratified preemption points) are kept by a wrapper of yield_point
    s.run(hang_timeout=60.0)
    res = {'rle': s.rle, 'decisions': s.decisions, 'switches': s.switches, 'fatal': s.fatal,
           'counts': [[t.n_any, t.n_focus, t.n_lock] for t in s.threads], 'pool': list(POOL_EVENTS),
           'errors': [type(t.error).__name__ if t.error is not None else None for t in s.threads],
           'locks': s.lock_log[:400], 'diverged': getattr(s.chooser, 'diverged', None)}
    if s.fatal is None:
        res['outcome'] = canon(per, ctx, sc.get('queries'))
        res['messages'] = [o[2] for row in per for o in row if o[0] == 'exc']
        # direct identity oracle: results of equal constructor arguments
        res['identity'] = identity_classes(sc, per, ctx)
    else:
        res['partial'] = [[o[:2] for o in row] for row in per]
    return res


def identity_classes(sc, per, ctx):
    """{constructor key: number of distinct objects returned for it} for conf/typehint ops"""
    groups: dict[str, set] = {}
    for t, outs in enumerate(per):
        for op, o in zip(sc['threads'][t], outs):
            if o[0] == 'obj':
                key = op[0] + ':' + ('K2' if op[1] == 'K2b' else op[1])
                groups.setdefault(key, set()).add(id(ctx.objs[o[1]]))
    return {k: len(v) for k, v in groups.items()}


def forked(fn, *args, timeout=90.0):
    r, w = os.pipe()
    pid = os.fork()
    if pid == 0:
        code = 0
        try:
            os.close(r)
            try:
                data = json.dumps(fn(*args), default=str)
            except BaseException:  # noqa: BLE001
                data = json.dumps({'harness_error': traceback.format_exc()[-3000:]})
            with os.fdopen(w, 'w') as f:
                f.write(data)
        finally:
            os._exit(code)
    os.close(w)
    chunks = []
    deadline = time.time() + timeout
    with os.fdopen(r, 'rb') as f:
        while True:
            left = deadline - time.time()
            if left <= 0:
                os.kill(pid, signal.SIGKILL)
                os.waitpid(pid, 0)
                return {'fatal': {'kind': 'hang', 'threads': []}, 'rle': [], 'decisions': 0, 'switches': 0, 'pool': []}
            rd, _, _ = select.select([f], [], [], left)
            if rd:
                b = os.read(f.fileno(), 1 << 20)
                if not b:
                    break
                chunks.append(b)
    os.waitpid(pid, 0)
    return json.loads(b''.join(chunks).decode() or '{"harness_error": "child wrote nothing"}')


# ---------------------------------------------------------------------------
# oracle
# ---------------------------------------------------------------------------
def judge(sc, res, refset):
    """-> list of (failure kind, text). Evaluated on the REAL outcome of one schedule."""
    out = []
    if res.get('harness_error'):
        return [('harness-error', res['harness_error'])]
    if res.get('fatal'):
        f = res['fatal']
        out.append((f['kind'], f'{f["kind"]}: ' + '; '.join(
            f'T{t["tid"]} ' + ('done' if t.get('done') else f'waits for {t.get("waiting_for")} held by T{t.get("holder")}'
                                if t.get('waiting_for') else f'at {t.get("at")}') for t in f.get('threads', []))))
        return out
    if res['pool']:
        e = res['pool'][0]
        out.append(('pool-shared', f'pooled {e[1]} handed to thread T{e[3]} while still held by T{e[2]}'))
    for k, n in res['identity'].items():
        if n != 1:
            out.append(('identity', f'{n} distinct objects returned for equal arguments of {k}'))
    oc = json.dumps(res['outcome'], sort_keys=True)
    if oc not in refset:
        excs = sorted({o[1] for row in res['outcome']['threads'] for o in row if o[0] == 'exc'})
        ref_excs = {o[1] for r in refset for row in json.loads(r)['threads'] for o in row if o[0] == 'exc'}
        new = [e for e in excs if e not in ref_excs]
        if new:
            out.append(('exception:' + new[0], f'exception {new[0]} no sequential order raises: {res.get("messages", [])[:1]}'))
        elif not out:
            out.append(('not-serializable', 'per-thread results / final state equal those of NO sequential order of the same operations'))
    return out


# ---------------------------------------------------------------------------
# schedule families
# ---------------------------------------------------------------------------
def schedules(sc, seed, budget, calib):
    """Deterministic (seeded) list of chooser specs. calib = per serial order: per-thread [n_any, n_focus, n_lock]."""
    rng = random.Random(seed)
    n = len(sc['threads'])
    orders = [list(p) for p in itertools.permutations(range(n))]
    out = [['serial', o] for o in orders]
    nf = [max(c[t][1] for c in calib) for t in range(n)]
    na = [max(c[t][0] for c in calib) for t in range(n)]
    nl = [max(c[t][2] for c in calib) for t in range(n)]

    def order_with_first(t):
        o = list(range(n))
        rng.shuffle(o)
        o.remove(t)
        return [t] + o
    # F2a: one preemption at EVERY lock event of every thread (exhaustive, small)
    for t in range(n):
        for i in range(1, nl[t] + 1):
            out.append(['preempt', order_with_first(t), [[t, 'lock', i, None]]])
    # F2b: one preemption at every focus event (exhaustive when affordable, else evenly sampled)
    pts = [(t, i) for t in range(n) for i in range(1, nf[t] + 1)]
    if len(pts) > budget['single']:
        pts = rng.sample(pts, budget['single'])
    for t, i in sorted(pts):
        out.append(['preempt', order_with_first(t), [[t, 'focus', i, None]]])
    # F3: two/three preemptions: first in a focus event of thread a, second in thread b (focus or anywhere), back to a
    for _ in range(budget['double']):
        a = rng.randrange(n)
        b = rng.choice([x for x in range(n) if x != a])
        p = [[a, 'focus', rng.randint(1, max(1, nf[a])), b]]
        if rng.random() < 0.5:
            p.append([b, 'focus', rng.randint(1, max(1, nf[b])), a])
        else:
            p.append([b, 'any', rng.randint(1, max(1, na[b])), a])
        if rng.random() < 0.3:
            p.append([a, 'focus', rng.randint(p[0][2], max(p[0][2], nf[a])), None])
        out.append(['preempt', [a] + [x for x in range(n) if x != a], p])
    # F4: PCT depth 2..4 over the stream of focus events
    tot = max(1, sum(nf))
    for _ in range(budget['pct']):
        pr = list(range(1, n + 1))
        rng.shuffle(pr)
        d = rng.randint(1, 3)
        out.append(['pct', pr, sorted(rng.randint(1, tot) for _ in range(d))])
    # F5: random walks
    for _ in range(budget['random']):
        out.append(['random', rng.getrandbits(32), rng.choice([0.02, 0.1, 0.3]), rng.choice([0.0, 0.0005, 0.003])])
    return out


def shrink(sc, gran, rle, kinds, refset):
    """Shortest prefix of the failing schedule (then: no further preemption) that still fails the same way."""
    def fails(prefix):
        r = forked(child_concurrent, sc, ['replay', prefix], gran)
        return bool({k for k, _ in judge(sc, r, refset)} & kinds), r
    lo, hi = 0, len(rle)
    best = None
    while lo < hi:
        mid = (lo + hi) // 2
        ok, r = fails(rle[:mid])
        if ok:
            hi, best = mid, r
        else:
            lo = mid + 1
    if best is None:
        return rle, None
    return best['rle'], best


def reference(sc):
    refs = {}
    for order in merges([len(t) for t in sc['threads']]):
        r = forked(child_sequential, sc, order)
        if r.get('harness_error'):
            raise RuntimeError(r['harness_error'])
        refs.setdefault(json.dumps(r['outcome'], sort_keys=True), list(order))
    return refs


def explore(p):
    sc, gran, seed = p['scenario'], p['gran'], p['seed']
    t0 = time.time()
    refs = reference(sc)
    refset = set(refs)
    calib = []
    n = len(sc['threads'])
    stats = {'schedules': 0, 'decisions': 0, 'switches': 0, 'distinct_outcomes': set(), 'distinct_schedules': set(),
             'kinds': {}, 'contended': 0, 'nonserial': 0}
    failures = []
    for o in itertools.permutations(range(n)):
        r = forked(child_concurrent, sc, ['serial', list(o)], gran)
        if r.get('harness_error'):
            raise RuntimeError(r['harness_error'])
        calib.append(r.get('counts') or [[1, 1, 1]] * n)
    specs = schedules(sc, seed, p['budget'], calib)
    deadline = t0 + p.get('time_limit', 1e9)
    for spec in specs:
        if time.time() > deadline:
            stats['time_limited'] = True
            break
        r = forked(child_concurrent, sc, spec, gran)
        stats['schedules'] += 1
        stats['decisions'] += r.get('decisions', 0)
        stats['switches'] += r.get('switches', 0)
        stats['kinds'][spec[0]] = stats['kinds'].get(spec[0], 0) + 1
        key = json.dumps(r.get('rle'))
        if key not in stats['distinct_schedules']:
            stats['distinct_schedules'].add(key)
            # non-trivial: >= 2 context switches beyond the serial hand-overs, i.e. a real preemption happened
            if r.get('switches', 0) >= n:
                stats['nonserial'] += 1
            if any(w == 'acq' for _, w, _ in r.get('locks', [])) and _contended(r):
                stats['contended'] += 1
        if 'outcome' in r:
            stats['distinct_outcomes'].add(json.dumps(r['outcome'], sort_keys=True))
        bad = judge(sc, r, refset)
        if bad:
            kinds = {k for k, _ in bad}
            rle, rr = shrink(sc, gran, r['rle'], kinds, refset)
            rr = rr or r
            bad2 = judge(sc, rr, refset) or bad
            failures.append({'kind': bad2[0][0], 'what': bad2[0][1], 'all': bad2, 'rle': rle, 'spec': spec,
                             'outcome': rr.get('outcome') or rr.get('partial'), 'fatal': rr.get('fatal'),
                             'messages': rr.get('messages'), 'switches': rr.get('switches'), 'locks': rr.get('locks', [])[:60]})
            if len({f['kind'] for f in failures}) >= 3 or len(failures) >= 6:
                break
    stats['distinct_outcomes'] = len(stats['distinct_outcomes'])
    stats['distinct_schedules'] = len(stats['distinct_schedules'])
    stats['reference_orders'] = len(merges([len(t) for t in sc['threads']]))
    stats['reference_outcomes'] = len(refs)
    stats['calibration'] = calib[0]
    stats['wall_s'] = round(time.time() - t0, 2)
    return {'stats': stats, 'failures': failures, 'reference': sorted(refs)[:4]}


def _contended(r):
    """some lock was requested by two different threads in this run"""
    seen = {}
    for tid, w, lab in r.get('locks', []):
        if w == 'acq':
            seen.setdefault(lab, set()).add(tid)
    return any(len(v) > 1 for v in seen.values())


def replay(p):
    sc = p['scenario']
    refs = reference(sc)
    r = forked(child_concurrent, sc, ['replay', p['rle']], p['gran'])
    bad = judge(sc, r, set(refs))
    return {'result': r, 'failures': bad, 'reference': sorted(refs), 'reference_orders': {k: v for k, v in refs.items()}}


def main():
    p = json.loads(sys.stdin.read())
    locks = setup(p['scenario'].get('warm', True))
    out = explore(p) if p['mode'] == 'explore' else replay(p)
    out['locks_replaced'] = sorted(locks)
    print(json.dumps(out, default=str))


if __name__ == '__main__':
    main()
