"""C15 — the real side: runs public-API operations of the real beartype on 2–3 threads under the
controlled scheduler (`harness/sched.py`) and, for reference, in every sequential order.

Run as `python -m harness.impl.c15_worker` with JSON on stdin (one *episode* = one fresh interpreter):
  {"scenario": S, "gran": "line"|"opcode", "seed": n, "budget": {...}}      explore: schedules generated from the seed
  {"scenario": S, "gran": g, "specs": [chooser spec, ...]}                  run exactly these schedules, in this order
                                                                            (replay: the verdict of the LAST one counts)

Scenario S = {"kind": str, "warm": bool, "threads": [[op, ...], ...], "queries": [name, ...]}
  op = ["conf", K]              BeartypeConf(**CONFS[K]) (kwargs rebuilt on every call)
     | ["typehint", H]          TypeHint(HINTS[H])       (hint object rebuilt on every call: equal, not identical)
     | ["is_bearable", O, H]    is_bearable(OBJS[O], HINTS[H])
     | ["die_if", O, H]         die_if_unbearable(...)
     | ["is_subhint", H1, H2]
     | ["decorate", slot, H, K] slot := beartype(conf=CONFS[K])(def f(x: HINTS[H]) -> HINTS[H]: return x)
     | ["call", slot, O]        slot(OBJS[O])
     | ["decor_factory", K]     beartype(conf=CONFS[K])   (the lock-free decorator memo)
     | ["pkg", name, K] | ["pkgs", [names], K] | ["all", K]      beartype.claw registrations
     | ["lookup", name]         get_package_conf_or_none(name)  (what the import hook consults)
     | ["enter", K] | ["exit"]  with beartyping(conf=CONFS[K]):  entered / left

State discipline. Every *trial* (one concurrent schedule or one sequential reference order) gets a brand-new
vocabulary: two classes created for that trial, hints/objects built over them, configurations carrying a
trial-unique option value. Hence every trial meets "fresh" hints and configurations (cold cache entries for
them) although all trials of an episode share one interpreter; the claw registry is reset with beartype's own
`claw_state.reinit()` before each trial. An episode is a deterministic function of its JSON payload, which is
what makes `--replay` deterministic: the replay re-runs the recorded schedule(s) in a fresh interpreter.

Reported per trial: per-operation outcomes in canonical form (values, exception class names, identity
classes of returned singletons by first occurrence), final registry observation, pool-monitor events
(an item handed out by `KeyPool.acquire` while still held), scheduler fatal events (deadlock, hang).
"""
from __future__ import annotations

import importlib
import itertools
import json
import os
import pkgutil
import random
import sys
import time

REPO = os.environ.get('VERIF_REPO', '/repo')
PFX = REPO.rstrip('/') + '/beartype/'

# files whose every line (bytecode instruction with gran=opcode) is a "focus" yield point: the anchored
# synchronisation code of C15
FOCUS_REL = [
    '_util/cache/pool/utilcachepool.py', '_util/cache/pool/utilcachepoolinstance.py',
    '_util/cache/pool/utilcachepoollistfixed.py', '_util/cache/map/utilmapunbounded.py',
    '_util/cache/utilcachecall.py', '_util/cache/utilcacheobjattr.py', '_conf/confmain.py', 'door/_cls/doormeta.py',
    'claw/_clawstate.py', 'claw/_package/clawpkgmain.py', 'claw/_package/clawpkgtrie.py',
    'claw/_package/clawpkgcontext.py', 'claw/_importlib/clawimpmain.py', '_decor/decorcache.py',
    '_check/convert/_convcoerce.py',
]
FOCUS = [PFX + f for f in FOCUS_REL]
# focus files that are NOT lock-free memo code: their locations get exhaustive single/double preemption
CORE_REL = [f for f in FOCUS_REL if f not in ('_util/cache/utilcachecall.py', '_check/convert/_convcoerce.py')]


# ---------------------------------------------------------------------------
# per-trial vocabulary (JSON-addressable by key)
# ---------------------------------------------------------------------------
class Vocab:
    def __init__(self, n: int):
        import typing as t
        from beartype import BeartypeStrategy
        from beartype.vale import IsAttr, IsEqual
        self.n = n
        A = type(f'UserA{n}', (), {})
        B = type(f'UserB{n}', (A,), {})
        self.A, self.B = A, B
        self.hints = {
            'list_A': lambda: list[A],
            'dict_str_list_A': lambda: dict[str, list[A]],
            'tuple_fixed': lambda: tuple[int, str, B],
            'tuple_var': lambda: tuple[A, ...],
            'union': lambda: t.Union[int, list[A], None],
            'opt_set': lambda: t.Optional[set[B]],
            'nested': lambda: list[dict[int, tuple[A, ...]]],
            'annot': lambda: t.Annotated[list[A], IsAttr['__class__', IsEqual[list]]],
            'seq_union': lambda: t.Sequence[t.Union[A, str]],
            'type_A': lambda: type[A],
            'cls_A': lambda: A,
            'cls_B': lambda: B,
            'unhashable': lambda: t.Annotated[A, []],
        }
        self.objs = {
            'int': lambda: 3, 'str': lambda: 'a', 'none': lambda: None,
            'list_A': lambda: [B(), B()], 'list_str': lambda: ['a', 'b'], 'list_empty': lambda: [],
            'dict_ok': lambda: {'k': [A()]}, 'dict_bad': lambda: {'k': ['x']},
            'tuple_ok': lambda: (1, 's', B()), 'tuple_bad': lambda: (1, 2, 3), 'tuple_A': lambda: (A(), B()),
            'set_B': lambda: {B()}, 'nested_ok': lambda: [{1: (A(), B())}], 'nested_bad': lambda: [{1: (2,)}],
            'A': lambda: A(), 'B': lambda: B(), 'clsB': lambda: B, 'clsint': lambda: int,
        }
        u = f'uniq{n}'
        self.confs = {
            'K0': lambda: dict(claw_skip_package_names=(u,)),
            'K1': lambda: dict(is_debug=True, claw_skip_package_names=(u,)),
            'K2': lambda: dict(is_debug=True, is_color=False, claw_skip_package_names=(u, 'skipme')),
            'K2b': lambda: dict(claw_skip_package_names=(u, 'skipme'), is_color=False, is_debug=True),
            'K3': lambda: dict(strategy=BeartypeStrategy.On, claw_skip_package_names=(u,)),
            'K4': lambda: dict(is_pep484_tower=True, violation_type=ValueError, claw_skip_package_names=(u,)),
            'K5': lambda: dict(warning_cls_on_decorator_exception=UserWarning, claw_skip_package_names=(u,)),
            'K6': lambda: dict(claw_skip_package_names=(u, 'pa.sub')),
        }
        self.uniq = u


POOL_EVENTS: list = []
_HELD: dict = {}
_TRIALS = [0]


# ---------------------------------------------------------------------------
# set-up of the episode's interpreter
# ---------------------------------------------------------------------------
def setup(warm: bool):
    if REPO not in sys.path:
        sys.path.insert(0, REPO)
    import warnings
    warnings.simplefilter('ignore')
    import beartype
    assert os.path.realpath(beartype.__file__).startswith(os.path.realpath(REPO)), beartype.__file__
    # every submodule is imported up front: lazy imports inside traced code would take CPython's (real) import locks
    for m in pkgutil.walk_packages(beartype.__path__, 'beartype.'):
        try:
            importlib.import_module(m.name)
        except BaseException:  # noqa: BLE001 optional dependencies
            pass
    if warm:
        # fixed warm-up on OTHER hints/configurations: global one-time initialisation happens here
        from beartype import BeartypeConf, beartype as bt
        from beartype.door import TypeHint, die_if_unbearable, is_bearable
        import typing as t
        c = BeartypeConf(is_debug=False, is_color=True)
        for h, o in ((list[float], [1.0]), (dict[bytes, set[float]], {}), (t.Union[float, list[bytes]], 2.0),
                     (tuple[float, bytes], (1.0, b'')), (t.Optional[tuple[float, ...]], None)):
            is_bearable(o, h)
            is_bearable(o, h, conf=c)
            try:
                die_if_unbearable('nope', h)
            except Exception:
                pass
            TypeHint(h)

            @bt
            def f(x: h) -> h:
                return x
            f(o)
    from .. import sched
    locks = sched.install_coop_locks('beartype')
    _install_pool_monitor()
    _snapshot_pools()
    # garbage collection is made deterministic: everything alive now is frozen, cyclic garbage of a trial is collected
    # before the next one (in the main thread, untraced) and never during a trial (a collection inside a traced thread
    # would run beartype's weakref.finalize callbacks at arbitrary points, even inside the scheduler)
    import gc
    gc.collect()
    gc.freeze()
    gc.disable()
    return locks


_POOLS: list = []


def _snapshot_pools():
    """Remember how many idle items every object pool holds after set-up; `fresh_trial` trims the pools back to
    that (pools only ever grow: their size is the highest concurrency seen so far, and an `acquire` race needs a
    pool that can run empty, which after the first concurrent trial would never happen again)."""
    import gc
    from beartype._util.cache.pool.utilcachepool import KeyPool
    for o in gc.get_objects():
        if isinstance(o, KeyPool):
            _POOLS.append((o, {k: len(v) for k, v in o._key_to_pool.items()}))


def _reset_pools():
    for pool, sizes in _POOLS:
        for k, lst in list(pool._key_to_pool.items()):
            n = sizes.get(k)
            if n is None:
                del pool._key_to_pool[k]
            else:
                del lst[n:]
        if hasattr(pool, '_pool_item_id_to_is_acquired'):
            pool._pool_item_id_to_is_acquired.clear()


def _install_pool_monitor():
    """Observe KeyPool.acquire/release without touching beartype: an item returned by acquire() while the
    monitor still lists it as held (not released since) is shared between two in-flight operations."""
    from beartype._util.cache.pool import utilcachepool as up, utilcachepoolinstance as ui
    from .. import sched
    real_acq, real_rel = up.KeyPool.acquire, up.KeyPool.release

    def tid():
        me = getattr(sched._TL, 'me', None)
        return me.tid if me is not None else -1

    def acquire(self, *a, **k):
        item = real_acq(self, *a, **k)
        h = _HELD.get(id(item))
        if h is not None:
            POOL_EVENTS.append(['held-twice', type(item).__name__, h[0], tid()])
        _HELD[id(item)] = (tid(), item)
        return item

    def release(self, *a, **k):
        item = k['item'] if 'item' in k else a[0]
        _HELD.pop(id(item), None)
        return real_rel(self, *a, **k)
    up.KeyPool.acquire, up.KeyPool.release = acquire, release
    ui._instance_pool_acquire = ui._instance_pool.acquire
    ui._instance_pool_release = ui._instance_pool.release


def fresh_trial() -> Vocab:
    import gc
    from beartype.claw._clawstate import claw_state
    gc.collect()
    claw_state.reinit()
    _reset_pools()
    POOL_EVENTS.clear()
    _HELD.clear()
    _TRIALS[0] += 1
    return Vocab(_TRIALS[0])


# ---------------------------------------------------------------------------
# operations
# ---------------------------------------------------------------------------
class Ctx:
    def __init__(self, nthreads, v: Vocab):
        self.v = v
        self.slots = {}
        self.stacks = [[] for _ in range(nthreads)]
        self.objs = []        # raw singleton results, for identity classes


def conf_label(c, v: Vocab):
    if c is None:
        return 'none'
    return f'dbg={int(c.is_debug)},warn={getattr(c.warning_cls_on_decorator_exception, "__name__", None)},' \
           f'skip={",".join(s for s in c.claw_skip_package_names if s != v.uniq)},strategy={c.strategy.name},' \
           f'tower={int(c.is_pep484_tower)}'


def do_op(op, ctx: Ctx, tid: int):
    """Execute one operation against the real beartype; canonical outcome (never raises)."""
    from beartype import BeartypeConf, beartype as bt
    k = op[0]
    v = ctx.v
    try:
        if k == 'conf':
            r = BeartypeConf(**v.confs[op[1]]())
            ctx.objs.append(r)
            return ['obj', len(ctx.objs) - 1, 'BeartypeConf']
        if k == 'typehint':
            from beartype.door import TypeHint
            r = TypeHint(v.hints[op[1]]())
            ctx.objs.append(r)
            return ['obj', len(ctx.objs) - 1, type(r).__name__]
        if k == 'is_bearable':
            from beartype.door import is_bearable
            return ['val', bool(is_bearable(v.objs[op[1]](), v.hints[op[2]]()))]
        if k == 'die_if':
            from beartype.door import die_if_unbearable
            die_if_unbearable(v.objs[op[1]](), v.hints[op[2]]())
            return ['ok']
        if k == 'is_subhint':
            from beartype.door import is_subhint
            return ['val', bool(is_subhint(v.hints[op[1]](), v.hints[op[2]]()))]
        if k == 'decorate':
            h = v.hints[op[2]]()

            def f(x: h) -> h:
                return x
            ctx.slots[op[1]] = bt(conf=BeartypeConf(**v.confs[op[3]]()))(f)
            return ['ok']
        if k == 'call':
            f = ctx.slots.get(op[1])
            if f is None:
                return ['skipped']
            r = f(v.objs[op[2]]())
            return ['val', type(r).__name__.rstrip('0123456789')]
        if k == 'decor_factory':
            d = bt(conf=BeartypeConf(**v.confs[op[1]]()))
            return ['val', callable(d)]
        if k in ('pkg', 'pkgs', 'all', 'enter'):
            from beartype.claw import beartype_all, beartype_package, beartype_packages, beartyping
            conf = BeartypeConf(**v.confs[op[-1]]())
            if k == 'pkg':
                beartype_package(op[1], conf=conf)
            elif k == 'pkgs':
                beartype_packages(tuple(op[1]), conf=conf)
            elif k == 'all':
                beartype_all(conf=conf)
            else:
                cm = beartyping(conf=conf)
                cm.__enter__()
                ctx.stacks[tid].append(cm)
            return ['ok']
        if k == 'exit':
            if not ctx.stacks[tid]:
                return ['skipped']
            ctx.stacks[tid].pop().__exit__(None, None, None)
            return ['ok']
        if k == 'lookup':
            from beartype.claw._package.clawpkgtrie import get_package_conf_or_none
            return ['val', conf_label(get_package_conf_or_none(op[1]), v)]
        return ['bad-op']
    except Exception as e:  # noqa: BLE001 outcome
        return ['exc', type(e).__name__, str(e)[:160]]


def canon(per_thread, ctx: Ctx, queries):
    """Canonical, trial-independent form of a run: identity classes by first occurrence in (thread, op) order;
    exception messages dropped (kept aside for the report)."""
    ids: dict[int, int] = {}
    out = []
    for outs in per_thread:
        row = []
        for o in outs:
            if o[0] == 'obj':
                i = ids.setdefault(id(ctx.objs[o[1]]), len(ids))
                row.append(['obj', i, o[2]])
            elif o[0] == 'exc':
                row.append(['exc', o[1]])
            else:
                row.append(o)
        out.append(row)
    final = []
    if queries:
        from beartype.claw._clawstate import claw_state
        from beartype.claw._package.clawpkgtrie import get_package_conf_or_none
        hook = claw_state.beartype_path_hook is not None and claw_state.beartype_path_hook in sys.path_hooks
        final = ['hook' if hook else 'nohook'] + [conf_label(get_package_conf_or_none(q), ctx.v) for q in queries]
    return {'threads': out, 'final': final}


def merges(lens):
    """all interleavings of thread op sequences at OPERATION granularity: sequences of thread ids"""
    pool = [t for t, n in enumerate(lens) for _ in range(n)]
    return sorted(set(itertools.permutations(pool)))


# ---------------------------------------------------------------------------
# one trial
# ---------------------------------------------------------------------------
def run_sequential(sc, order):
    ctx = Ctx(len(sc['threads']), fresh_trial())
    pos = [0] * len(sc['threads'])
    per = [[] for _ in sc['threads']]
    for t in order:
        per[t].append(do_op(sc['threads'][t][pos[t]], ctx, t))
        pos[t] += 1
    return {'outcome': canon(per, ctx, sc.get('queries')), 'pool': list(POOL_EVENTS),
            'messages': [o[2] for row in per for o in row if o[0] == 'exc']}


def run_concurrent(sc, chooser_spec, gran):
    from .. import sched
    ctx = Ctx(len(sc['threads']), fresh_trial())
    s = sched.Scheduler(sched.make_chooser(chooser_spec, PFX), PFX, focus_files=FOCUS,
                        opcode_files=FOCUS if gran == 'opcode' else ())
    per = [[] for _ in sc['threads']]

    def body(t):
        def run():
            for op in sc['threads'][t]:
                per[t].append(do_op(op, ctx, t))
        return run
    for t in range(len(sc['threads'])):
        s.spawn(body(t))
    s.run(hang_timeout=60.0)
    res = {'rle': s.rle, 'decisions': s.decisions, 'switches': s.switches, 'fatal': s.fatal,
           'counts': [[t.n_any, t.n_focus, t.n_lock] for t in s.threads], 'pool': list(POOL_EVENTS),
           'locks': s.lock_log[:400], 'diverged': getattr(s.chooser, 'diverged', None), 'switch_log': s.switch_log[:3000],
           'locs': [{':'.join([k[0][len(PFX):]] + [str(x) for x in k[1:]]): n for k, n in t.locs.items()
                     if k is not None and None not in k} for t in s.threads]}
    res['edges'] = lock_edges(s.lock_log)
    if s.fatal is None:
        res['outcome'] = canon(per, ctx, sc.get('queries'))
        res['messages'] = [[o[1], o[2]] for row in per for o in row if o[0] == 'exc']
        res['identity'] = identity_classes(sc, per, ctx)
    else:
        res['partial'] = [[o[:2] for o in row] for row in per]
    return res


def lock_edges(log):
    """dynamic lock nesting: [outer, inner] for every acquisition of `inner` by a thread holding `outer`
    (outer == inner: re-entrant re-acquisition)"""
    stacks: dict = {}
    edges = set()
    for tid, what, label in log:
        st = stacks.setdefault(tid, [])
        if what == 'acq':
            for o in st:
                edges.add((o, label))
            st.append(label)
        elif label in st:
            st.reverse()
            st.remove(label)
            st.reverse()
    return sorted(edges)


def identity_classes(sc, per, ctx):
    """{constructor key: number of distinct objects returned for it} for conf/typehint ops (direct identity oracle)"""
    groups: dict[str, set] = {}
    for t, outs in enumerate(per):
        for op, o in zip(sc['threads'][t], outs):
            if o[0] == 'obj' and op[1] != 'unhashable':
                key = op[0] + ':' + ('K2' if op[1] == 'K2b' else op[1])
                groups.setdefault(key, set()).add(id(ctx.objs[o[1]]))
    return {k: len(v) for k, v in groups.items()}


# ---------------------------------------------------------------------------
# oracle
# ---------------------------------------------------------------------------
def judge(sc, res, refset):
    """-> list of (failure kind, text). Evaluated on the REAL outcome of one schedule."""
    out = []
    if res.get('fatal'):
        f = res['fatal']
        out.append((f['kind'], f'{f["kind"]}: ' + '; '.join(
            f'T{t["tid"]} ' + ('done' if t.get('done') else f'waits for {t.get("waiting_for")} held by T{t.get("holder")}'
                                if t.get('waiting_for') else f'at {t.get("at")}') for t in f.get('threads', []))))
        return out
    if res['pool']:
        e = res['pool'][0]
        out.append(('pool-shared', f'pooled {e[1]} handed to thread T{e[3]} while still held by T{e[2]}'))
    for k, n in res['identity'].items():
        if n != 1:
            out.append(('identity', f'{n} distinct objects returned for equal arguments of {k}'))
    oc = json.dumps(res['outcome'], sort_keys=True)
    if oc not in refset:
        excs = sorted({o[1] for row in res['outcome']['threads'] for o in row if o[0] == 'exc'})
        ref_excs = {o[1] for r in refset for row in json.loads(r)['threads'] for o in row if o[0] == 'exc'}
        new = [e for e in excs if e not in ref_excs]
        if new:
            msg = next((m[1] for m in res.get('messages', []) if m[0] == new[0]), '')
            out.append(('exception:' + new[0], f'exception {new[0]} that no sequential order raises: {msg[:120]!r}'))
        elif not out:
            out.append(('not-serializable', 'per-thread results / final state equal those of NO sequential order of the same operations'))
    return out


# ---------------------------------------------------------------------------
# schedule families
# ---------------------------------------------------------------------------
def schedules(sc, seed, budget, calib):
    """Deterministic (seeded) list of chooser specs.
    calib = per serial order: {'counts': per-thread [n_any, n_focus, n_lock], 'locs': per-thread {location: visits}}."""
    rng = random.Random(seed)
    n = len(sc['threads'])
    out = []
    nf = [max(c['counts'][t][1] for c in calib) for t in range(n)]
    na = [max(c['counts'][t][0] for c in calib) for t in range(n)]
    nl = [max(c['counts'][t][2] for c in calib) for t in range(n)]
    locs = [{} for _ in range(n)]
    for c in calib:
        for t in range(n):
            for k, v in c['locs'][t].items():
                locs[t][k] = max(locs[t].get(k, 0), v)

    def order_with_first(t):
        o = list(range(n))
        rng.shuffle(o)
        o.remove(t)
        return [t] + o

    def second(a):
        """a preemption of some other thread b, handing control back to a"""
        b = rng.choice([x for x in range(n) if x != a])
        if rng.random() < 0.5:
            return b, [b, 'any', rng.randint(1, max(1, na[b])), a]
        return b, [b, 'focus', rng.randint(1, max(1, nf[b])), a]
    # F2a: one preemption at EVERY lock event (acquire / release) of every thread
    for t in range(n):
        for i in range(1, nl[t] + 1):
            out.append(['preempt', order_with_first(t), [[t, 'lock', i, None]]])
    # F2b/F3: preemption at the 1st, 2nd, 3rd and last visit of every distinct focus LOCATION (stratified: a line
    # visited once counts as much as a memo wrapper line visited hundreds of times); alone (F2b) and followed by a
    # second preemption of the thread that was switched to (F3). Locations of the lock-protected ("core") files
    # first and exhaustively, the others up to the budget.
    core, rest = [], []
    for t in range(n):
        for k, v in sorted(locs[t].items()):
            occ = sorted({1, 2, 3, v} & set(range(1, v + 1)))
            (core if k.split(':')[0] in CORE_REL else rest).extend((t, k, o) for o in occ)
    rng.shuffle(rest)
    if len(core) > budget['core']:
        core = rng.sample(core, budget['core'])
    pts = core + rest[:budget['single']]
    for t, k, o in pts:
        out.append(['preempt', order_with_first(t), [[t, '@' + k, o, None]]])
        b, p2 = second(t)
        out.append(['preempt', [t] + [x for x in range(n) if x != t], [[t, '@' + k, o, b], p2]])
    # F3b: two/three preemptions at uniformly drawn focus events
    for _ in range(budget['double']):
        a = rng.randrange(n)
        b, p2 = second(a)
        p = [[a, 'focus', rng.randint(1, max(1, nf[a])), b], p2]
        if rng.random() < 0.3:
            p.append([a, 'focus', rng.randint(p[0][2], max(p[0][2], nf[a])), None])
        out.append(['preempt', [a] + [x for x in range(n) if x != a], p])
    # F4: PCT depth 2..4 over the stream of focus events
    tot = max(1, sum(nf))
    for _ in range(budget['pct']):
        pr = list(range(1, n + 1))
        rng.shuffle(pr)
        d = rng.randint(1, 3)
        out.append(['pct', pr, sorted(rng.randint(1, tot) for _ in range(d))])
    # F5: random walks
    for _ in range(budget['random']):
        out.append(['random', rng.getrandbits(32), rng.choice([0.02, 0.1, 0.3]), rng.choice([0.0, 0.0005, 0.003])])
    rng.shuffle(out)
    return out


def reference(sc):
    refs = {}
    for order in merges([len(t) for t in sc['threads']]):
        r = run_sequential(sc, order)
        refs.setdefault(json.dumps(r['outcome'], sort_keys=True), list(order))
    return refs


def _contended(r):
    """some lock was requested by two different threads in this run"""
    seen = {}
    for tid, w, lab in r.get('locks', []):
        if w == 'acq':
            seen.setdefault(lab, set()).add(tid)
    return any(len(v) > 1 for v in seen.values())


def episode(p):
    sc, gran = p['scenario'], p['gran']
    t0 = time.time()
    n = len(sc['threads'])
    refs = reference(sc)
    refset = set(refs)
    stats = {'schedules': 0, 'decisions': 0, 'switches': 0, 'distinct_outcomes': set(), 'distinct_schedules': set(),
             'kinds': {}, 'contended': 0, 'nonserial': 0, 'nontrivial': 0, 'lock_edges': set()}
    failures = []
    executed = []
    verdicts = []
    rles = []
    slogs = []
    calib = []
    serials = [['serial', list(o)] for o in itertools.permutations(range(n))]
    explicit = p.get('specs')
    specs = list(explicit) if explicit is not None else list(serials)
    deadline = t0 + p.get('time_limit', 1e9)
    last = None
    i = 0
    while i < len(specs):
        spec = specs[i]
        i += 1
        if time.time() > deadline:
            stats['time_limited'] = True
            break
        r = run_concurrent(sc, spec, gran)
        executed.append(spec)
        last = r
        stats['schedules'] += 1
        stats['decisions'] += r.get('decisions', 0)
        stats['switches'] += r.get('switches', 0)
        stats['kinds'][spec[0]] = stats['kinds'].get(spec[0], 0) + 1
        stats['lock_edges'].update(tuple(e) for e in r.get('edges', []))
        key = json.dumps(r.get('rle'))
        if key not in stats['distinct_schedules']:
            stats['distinct_schedules'].add(key)
            ns = r.get('switches', 0) >= n      # beyond the n-1 hand-overs of a serial run: a real preemption/blocking
            ct = _contended(r)
            stats['nonserial'] += ns
            stats['contended'] += ct
            stats['nontrivial'] += (ns and ct)
        if 'outcome' in r:
            stats['distinct_outcomes'].add(json.dumps(r['outcome'], sort_keys=True))
        bad = judge(sc, r, refset)
        verdicts.append([k for k, _ in bad])
        if explicit is not None:
            rles.append(r.get('rle'))
            slogs.append(r.get('switch_log'))
        if bad:
            failures.append({'kind': bad[0][0], 'what': bad[0][1], 'all': bad, 'rle': r['rle'], 'spec': spec,
                             'index': len(executed) - 1, 'history': list(executed),
                             'outcome': r.get('outcome') or r.get('partial'), 'fatal': r.get('fatal'),
                             'messages': r.get('messages'), 'switches': r.get('switches'), 'switch_log': r.get('switch_log'),
                             'at': [t.get('at') for t in (r.get('fatal') or {}).get('threads', [])],
                             'locks': r.get('locks', [])[:60]})
            if r.get('fatal') or (explicit is None and (len({f['kind'] for f in failures}) >= 3 or len(failures) >= 4)):
                break   # after a deadlock/hang the interpreter state is not trustworthy
        if explicit is None and spec[0] == 'serial':
            calib.append({'counts': r['counts'], 'locs': r['locs']})
            if len(calib) == len(serials):
                specs += schedules(sc, p['seed'], p['budget'], calib)
    stats['outcomes'] = sorted(stats['distinct_outcomes'])[:40]
    stats['distinct_outcomes'] = len(stats['distinct_outcomes'])
    stats['lock_edges'] = sorted(stats['lock_edges'])
    stats['distinct_schedules'] = len(stats['distinct_schedules'])
    stats['reference_orders'] = len(merges([len(t) for t in sc['threads']]))
    stats['reference_outcomes'] = len(refs)
    stats['calibration'] = calib[0]['counts'] if calib else None
    stats['focus_locations'] = [len(x) for x in calib[0]['locs']] if calib else None
    stats['wall_s'] = round(time.time() - t0, 2)
    return {'stats': stats, 'failures': failures, 'reference': sorted(refs)[:12], 'last': last,
            'verdicts': verdicts if explicit is not None else None, 'rles': rles if explicit is not None else None,
            'switch_logs': slogs if explicit is not None else None,
            'last_verdict': judge(sc, last, refset) if last else None}


def main():
    p = json.loads(sys.stdin.read())
    locks = setup(p['scenario'].get('warm', True))
    out = episode(p)
    out['locks_replaced'] = sorted(locks)
    print(json.dumps(out, default=str))


if __name__ == '__main__':
    main()
