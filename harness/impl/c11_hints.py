"""C11 — a JSON-able description language for ARBITRARY objects used as type hints, its builder, a seeded generator of
malformed hints, a shrinker and a canonical rendering (the "hint kind" of violation keys).

node =
  ['n', NAME]                 named object of REGISTRY (classes, typing special forms, user classes with hostile hooks, values)
  ['v', KIND, PAYLOAD]        plain value: int float bytes | list dict set (PAYLOAD = list of nodes)
  ['s', TEXT]                 a string in hint position (forward reference / stringified hint)
  ['fr', TEXT]                typing.ForwardRef(TEXT)
  ['t', [items]]              a tuple
  ['sub', HEAD, [args]]       HEAD[args]            (one arg: HEAD[a]; none: HEAD[()])
  ['ga', ORIGIN, [args]]      types.GenericAlias(ORIGIN, tuple(args))    (no validation by typing: wrong arities, non-hints)
  ['or', [items]]             a | b | c             (PEP 604)
  ['deep', HEAD, N, LEAF]     HEAD[HEAD[…[LEAF]]]   N levels (HEAD a NAME: list, Optional, Annotated*, tuple, dict2, Union2)
  ['h', KIND]                 instance of a hostile class: __eq__ / __hash__ / __repr__ / __bool__ / __getattr__ raise UserBoom
  ['is', SCRIPT]              beartype.vale.Is[validator] whose n-th invocation does SCRIPT[min(n, len-1)]: 'T' 'F' 'R' 'N'
                              (True / False / raise UserBoom / return a non-bool)
  ['hook', SCRIPT]            a class whose metaclass __instancecheck__ follows SCRIPT likewise (None is always an instance, so
                              the class counts as isinstanceable)
  ['tv', BOUND|None, [constraints]]   a fresh TypeVar
  ['nt', SUPER]               typing.NewType('N', SUPER)
  ['alias', BODY]             PEP 695 `type A = BODY`;  ['n', 'ALIAS_SELF'] inside BODY refers to the alias itself
"""
from __future__ import annotations

import collections
import collections.abc as cabc
import dataclasses
import enum
import itertools
import random
import sys
import types
import typing
from typing import (Annotated, Any, Callable, ClassVar, Concatenate, Final, Generic, Literal, LiteralString, NamedTuple, Never,
                    NewType, NoReturn, NotRequired, Optional, ParamSpec, Protocol, Required, Self, TypeAlias, TypedDict,
                    TypeGuard, TypeVar, TypeVarTuple, Union, Unpack)


# ---------------------------------------------------------------------------------------------------------
# user exceptions (every one raised by harness-injected user code is recorded, so identity can be checked)
# ---------------------------------------------------------------------------------------------------------
class UserBoom(Exception):
    """raised by user code the harness injects (hostile hint objects, validators, __instancecheck__ hooks, bodies)"""


RAISED: list = []          # [(exception object, source)]


def boom(source: str):
    e = UserBoom(source)
    RAISED.append((e, source))
    raise e


# ---------------------------------------------------------------------------------------------------------
# hostile classes
# ---------------------------------------------------------------------------------------------------------
class HEq:
    def __eq__(self, other):
        boom('hint.__eq__')

    def __ne__(self, other):
        boom('hint.__eq__')

    def __hash__(self):
        return 0x5EEDBEEF


class HHash:
    def __hash__(self):
        boom('hint.__hash__')


class HRepr:
    def __repr__(self):
        boom('hint.__repr__')


class HBool:
    def __bool__(self):
        boom('hint.__bool__')


class HGetattr:
    def __getattr__(self, name):
        boom('hint.__getattr__')


class HLen:
    def __len__(self):
        boom('hint.__len__')


class _MetaIC(type):
    def __instancecheck__(cls, obj):
        boom('hint.__instancecheck__')        # raises for every object, the isinstanceability probe included


class CIC(metaclass=_MetaIC):
    """isinstance(x, CIC) always raises"""


class _MetaSC(type):
    def __subclasscheck__(cls, sub):
        boom('hint.__subclasscheck__')


class CSC(metaclass=_MetaSC):
    """issubclass(x, CSC) always raises"""


class CGI:
    def __class_getitem__(cls, item):
        boom('hint.__class_getitem__')


class CGI2:
    def __class_getitem__(cls, item):
        return 5


class _MetaRepr(type):
    def __repr__(cls):
        boom('hint.__repr__')


class CRepr(metaclass=_MetaRepr):
    """a class whose repr raises"""


class _MetaHash(type):
    def __hash__(cls):
        boom('hint.__hash__')

    def __eq__(cls, other):
        return cls is other


class CHash(metaclass=_MetaHash):
    """an unhashable class"""


class _MetaUnhash(type):
    __hash__ = None  # type: ignore

    def __eq__(cls, other):
        return cls is other


class CUnhash(metaclass=_MetaUnhash):
    """a class whose hash() raises TypeError (unhashable type)"""


class Plain:
    pass


T = TypeVar('T')
K = TypeVar('K')
P = ParamSpec('P')
Ts = TypeVarTuple('Ts')


class GenericUser(Generic[T]):
    pass


class Generic2(Generic[K, T]):
    pass


class ProtoUser(Protocol):
    def meth(self) -> int: ...


@typing.runtime_checkable
class ProtoRT(Protocol):
    def meth(self) -> int: ...


class TD(TypedDict):
    a: int


class NT(NamedTuple):
    a: int


@dataclasses.dataclass
class DC:
    a: int = 0


class EnumC(enum.Enum):
    A = 1


def _fn(x):
    return x


REGISTRY = {
    # plain classes
    'int': int, 'str': str, 'float': float, 'bytes': bytes, 'bool': bool, 'complex': complex, 'object': object, 'type': type,
    'list': list, 'dict': dict, 'tuple': tuple, 'set': set, 'frozenset': frozenset, 'NoneType': type(None),
    'deque': collections.deque, 'defaultdict': collections.defaultdict, 'OrderedDict': collections.OrderedDict,
    'Counter': collections.Counter, 'ChainMap': collections.ChainMap,
    # abcs
    'cabc.Sequence': cabc.Sequence, 'cabc.Mapping': cabc.Mapping, 'cabc.Iterable': cabc.Iterable, 'cabc.Iterator': cabc.Iterator,
    'cabc.Callable': cabc.Callable, 'cabc.Collection': cabc.Collection, 'cabc.Generator': cabc.Generator,
    'cabc.Coroutine': cabc.Coroutine, 'cabc.Awaitable': cabc.Awaitable, 'cabc.Set': cabc.Set, 'cabc.ItemsView': cabc.ItemsView,
    'cabc.KeysView': cabc.KeysView, 'cabc.MutableSequence': cabc.MutableSequence, 'cabc.AsyncIterator': cabc.AsyncIterator,
    'cabc.Container': cabc.Container, 'cabc.Sized': cabc.Sized, 'cabc.Hashable': cabc.Hashable,
    # typing
    'Any': Any, 'List': typing.List, 'Dict': typing.Dict, 'Tuple': typing.Tuple, 'Set': typing.Set, 'FrozenSet': typing.FrozenSet,
    'Type': typing.Type, 'Union': Union, 'Optional': Optional, 'Callable': Callable, 'Literal': Literal, 'Annotated': Annotated,
    'Sequence': typing.Sequence, 'Mapping': typing.Mapping, 'Iterable': typing.Iterable, 'Iterator': typing.Iterator,
    'Generator': typing.Generator, 'Deque': typing.Deque, 'DefaultDict': typing.DefaultDict, 'Collection': typing.Collection,
    'Final': Final, 'ClassVar': ClassVar, 'Required': Required, 'NotRequired': NotRequired, 'Concatenate': Concatenate,
    'Unpack': Unpack, 'Self': Self, 'Never': Never, 'NoReturn': NoReturn, 'LiteralString': LiteralString, 'TypeGuard': TypeGuard,
    'TypeAlias': TypeAlias, 'Generic': Generic, 'Protocol': Protocol, 'NamedTuple': NamedTuple, 'TypedDict': TypedDict,
    'NewType': NewType, 'TypeVar': TypeVar, 'ParamSpec': ParamSpec, 'TypeVarTuple': TypeVarTuple, 'ForwardRef': typing.ForwardRef,
    'AnyStr': typing.AnyStr, 'Text': typing.Text, 'Hashable': typing.Hashable, 'Sized': typing.Sized, 'Pattern': typing.Pattern,
    'Match': typing.Match, 'IO': typing.IO, 'SupportsInt': typing.SupportsInt, 'ByteString': getattr(typing, 'ByteString', bytes),
    'Awaitable': typing.Awaitable, 'Coroutine': typing.Coroutine, 'AsyncGenerator': typing.AsyncGenerator,
    'ContextManager': typing.ContextManager, 'ItemsView': typing.ItemsView,
    # type parameters
    'T': T, 'K': K, 'P': P, 'Ts': Ts, 'P.args': P.args, 'P.kwargs': P.kwargs,
    # user classes
    'Plain': Plain, 'GenericUser': GenericUser, 'Generic2': Generic2, 'ProtoUser': ProtoUser, 'ProtoRT': ProtoRT, 'TD': TD, 'NT': NT,
    'DC': DC, 'EnumC': EnumC, 'EnumC.A': EnumC.A,
    'CIC': CIC, 'CSC': CSC, 'CGI': CGI, 'CGI2': CGI2, 'CRepr': CRepr, 'CHash': CHash, 'CUnhash': CUnhash,
    # values that are no hints
    'None': None, 'Ellipsis': ..., 'NotImplemented': NotImplemented, 'True': True, 'False': False,
    'module': sys, 'typing_module': typing, 'builtin_function': len, 'function': _fn, 'lambda': (lambda x: x),
    'method': Plain.__init__, 'instance': Plain(), 'generic_instance': GenericUser(), 'exception_class': ValueError,
    'exception_instance': ValueError('x'), 'property': property(_fn), 'classmethod': classmethod(_fn), 'slice': slice(1, 2),
    'range': range(3), 'object_instance': object(), 'type_instance_int': 0, 'code': _fn.__code__, 'dataclass_field': dataclasses.field(),
    'InitVar': dataclasses.InitVar, 'InitVar[int]': dataclasses.InitVar[int], 'KW_ONLY': dataclasses.KW_ONLY,
    'types.UnionType': types.UnionType, 'types.GenericAlias': types.GenericAlias, 'types.FunctionType': types.FunctionType,
    'types.NoneType': types.NoneType, 'types.EllipsisType': types.EllipsisType,
}

SPECIAL_FORMS = ['Final', 'ClassVar', 'Required', 'NotRequired', 'Concatenate', 'P', 'Ts', 'Unpack', 'Self', 'Never', 'NoReturn',
                 'LiteralString', 'TypeGuard', 'TypeAlias', 'Generic', 'Protocol', 'Optional', 'Union', 'Literal', 'Annotated',
                 'Callable', 'Type', 'Tuple', 'NamedTuple', 'TypedDict', 'NewType', 'TypeVar', 'ParamSpec', 'TypeVarTuple',
                 'ForwardRef', 'P.args', 'P.kwargs', 'AnyStr', 'InitVar', 'InitVar[int]', 'KW_ONLY', 'Any', 'Pattern', 'Match', 'IO']
NONHINT_VALUES = ['Ellipsis', 'NotImplemented', 'True', 'False', 'module', 'typing_module', 'builtin_function', 'function', 'lambda',
                  'method', 'instance', 'generic_instance', 'exception_instance', 'property', 'classmethod', 'slice', 'range',
                  'object_instance', 'code', 'dataclass_field', 'EnumC.A']
HOSTILE = ['HEq', 'HHash', 'HRepr', 'HBool', 'HGetattr', 'HLen']
HOSTILE_CLASSES = ['CIC', 'CSC', 'CGI', 'CGI2', 'CRepr', 'CHash', 'CUnhash']
VALID_CLASSES = ['int', 'str', 'float', 'bytes', 'bool', 'object', 'list', 'dict', 'tuple', 'set', 'NoneType', 'Plain', 'DC', 'EnumC',
                 'NT', 'exception_class', 'cabc.Sequence', 'cabc.Mapping', 'cabc.Sized', 'ProtoRT', 'GenericUser']
CONTAINER_HEADS_1 = ['list', 'set', 'frozenset', 'List', 'Set', 'Sequence', 'Iterable', 'cabc.Sequence', 'cabc.Iterable', 'deque',
                     'Optional', 'type', 'Type', 'cabc.Collection', 'Iterator', 'GenericUser', 'Final', 'ClassVar', 'cabc.Awaitable',
                     'Required', 'TypeGuard', 'Unpack', 'cabc.Set', 'cabc.KeysView']
CONTAINER_HEADS_2 = ['dict', 'Dict', 'Mapping', 'cabc.Mapping', 'defaultdict', 'Generic2', 'cabc.ItemsView', 'OrderedDict', 'ChainMap']
TYPING_FORMS = {'Annotated', 'Literal', 'Union', 'Optional', 'Callable', 'Tuple', 'Generator', 'Final', 'ClassVar', 'Required', 'TypeGuard',
                'Unpack', 'Type', 'List', 'Set', 'Sequence', 'Iterable', 'Iterator', 'Dict', 'Mapping', 'Concatenate', 'NotRequired', 'Generic',
                'Protocol', 'FrozenSet', 'Deque', 'DefaultDict', 'Collection'}
HOSTILE_KINDS = {'HEq': HEq, 'HHash': HHash, 'HRepr': HRepr, 'HBool': HBool, 'HGetattr': HGetattr, 'HLen': HLen}


# ---------------------------------------------------------------------------------------------------------
# scripted user code
# ---------------------------------------------------------------------------------------------------------
class Script:
    """n-th invocation does script[min(n, len - 1)]"""

    def __init__(self, script, source):
        self.script, self.source, self.n = list(script), source, 0

    def __call__(self, *a):
        act = self.script[min(self.n, len(self.script) - 1)]
        self.n += 1
        if act == 'T':
            return True
        if act == 'F':
            return False
        if act == 'N':
            return 'non-bool'
        boom(self.source)


SCRIPTS: list = []         # every Script built for the current case (invocation counts are reported)


_UNIQUE = itertools.count()


def make_validator(script):
    """every validator gets a name of its own: beartype memoises hints by their repr()"""
    from beartype.vale import Is
    sc = Script(script, 'validator')
    SCRIPTS.append(sc)
    name = f'validator_{next(_UNIQUE)}'
    ns = {'sc': sc}
    exec(f'def {name}(x):\n    return sc(x)\n', ns)
    return Is[ns[name]]


def make_hook_class(script):
    sc = Script(script, 'hook.__instancecheck__')
    SCRIPTS.append(sc)

    class _Meta(type):
        def __instancecheck__(cls, obj):
            if obj is None:          # the isinstanceability probe of beartype (isinstance(None, cls)) succeeds
                return False
            return sc(obj)
    name = f'Hooked_{next(_UNIQUE)}'
    cls = _Meta(name, (), {'__module__': __name__, '__qualname__': name})
    globals()[name] = cls
    return cls


# ---------------------------------------------------------------------------------------------------------
# builder
# ---------------------------------------------------------------------------------------------------------
class Unbuildable(Exception):
    """CPython / typing itself refuses to construct the object: not a beartype input"""


DEEP_HEADS = {
    'list': lambda h: list[h], 'List': lambda h: typing.List[h], 'Optional': lambda h: Optional[h],
    'tuple': lambda h: tuple[h, ...], 'tuple1': lambda h: tuple[h], 'dict2': lambda h: dict[str, h],
    'Union2': lambda h: Union[list[h], str], 'or2': lambda h: list[h] | None, 'Annotated': lambda h: Annotated[h, 0],
    'AnnotatedList': lambda h: Annotated[list[h], 0], 'type': lambda h: type[h] if isinstance(h, type) else list[h],
    'Sequence': lambda h: cabc.Sequence[h], 'Callable': lambda h: Callable[[], h], 'ga_list': lambda h: types.GenericAlias(list, (h,)),
    'set': lambda h: frozenset[h], 'Mapping': lambda h: cabc.Mapping[str, h], 'GenericUser': lambda h: GenericUser[h],
}


SLOW_DEEP_HEADS = ('AnnotatedList', 'Annotated')


def build(node, alias_self=None):
    """node -> Python object. Raises Unbuildable when CPython/typing refuses (outside beartype)."""
    try:
        return _build(node, alias_self)
    except Unbuildable:
        raise
    except RecursionError:
        raise Unbuildable('RecursionError while constructing')
    except BaseException as e:  # typing's own validation, or hostile code run by typing itself
        raise Unbuildable(f'{type(e).__name__}: {e}'[:200])


def _build(node, al):
    op = node[0]
    if op == 'n':
        if node[1] == 'ALIAS_SELF':
            if al is None:
                raise Unbuildable('ALIAS_SELF outside an alias')
            return al[0]
        return REGISTRY[node[1]]
    if op == 'v':
        kind, payload = node[1], node[2]
        if kind in ('int', 'float', 'str'):
            return payload
        if kind == 'bytes':
            return payload.encode()
        items = [_build(x, al) for x in payload]
        if kind == 'list':
            return items
        if kind == 'set':
            return set(items)
        if kind == 'dict':
            return {i: x for i, x in enumerate(items)}
        raise Unbuildable(kind)
    if op == 's':
        return node[1]
    if op == 'fr':
        return typing.ForwardRef(node[1])
    if op == 't':
        return tuple(_build(x, al) for x in node[1])
    if op == 'sub':
        head = _build(node[1], al)
        args = [_build(x, al) for x in node[2]]
        return head[args[0]] if len(args) == 1 else head[tuple(args)]
    if op == 'ga':
        return types.GenericAlias(_build(node[1], al), tuple(_build(x, al) for x in node[2]))
    if op == 'or':
        items = [_build(x, al) for x in node[1]]
        out = items[0]
        for x in items[1:]:
            out = out | x
        return out
    if op == 'deep':
        h = _build(node[3], al)
        f = DEEP_HEADS[node[1]]
        for _ in range(node[2]):
            h = f(h)
        return h
    if op == 'h':
        return HOSTILE_KINDS[node[1]]()
    if op == 'is':
        return make_validator(node[1])
    if op == 'hook':
        return make_hook_class(node[1])
    if op == 'tv':
        kw = {}
        if node[1] is not None:
            kw['bound'] = _build(node[1], al)
        return TypeVar('TV', *[_build(x, al) for x in node[2]], **kw)
    if op == 'nt':
        return NewType('N', _build(node[1], al))
    if op == 'alias':
        cell = [None]
        body = node[1]
        ns = {'_build': _build, 'body': body, 'cell': cell}
        exec('type A = _build(body, cell)\ncell[0] = A', ns)     # the value is evaluated lazily, by beartype
        return ns['A']
    raise Unbuildable(f'unknown node {op}')


# ---------------------------------------------------------------------------------------------------------
# rendering (canonical "hint kind")
# ---------------------------------------------------------------------------------------------------------
def render(node) -> str:
    op = node[0]
    if op == 'n':
        return node[1]
    if op == 'v':
        if node[1] in ('int', 'float', 'bytes', 'str'):
            return f'<{node[1]}>'
        return f'<{node[1]}:{",".join(render(x) for x in node[2])}>'
    if op == 's':
        return 'str:' + repr(node[1] if len(node[1]) < 30 else node[1][:12] + f'…({len(node[1])})')
    if op == 'fr':
        return f'ForwardRef({node[1]!r})'
    if op == 't':
        return '(' + ','.join(render(x) for x in node[1]) + ',)'
    if op == 'sub':
        return f'{render(node[1])}[{",".join(render(x) for x in node[2])}]'
    if op == 'ga':
        return f'GenericAlias({render(node[1])},({",".join(render(x) for x in node[2])}))'
    if op == 'or':
        return '|'.join(render(x) for x in node[1])
    if op == 'deep':
        return f'deep({node[1]}^{node[2]},{render(node[3])})'
    if op == 'h':
        return node[1] + '()'
    if op == 'is':
        return 'Is[' + ''.join(node[1]) + ']'
    if op == 'hook':
        return 'Hook[' + ''.join(node[1]) + ']'
    if op == 'tv':
        return 'TypeVar(' + ('bound=' + render(node[1]) if node[1] is not None else '') + ','.join(render(x) for x in node[2]) + ')'
    if op == 'nt':
        return f'NewType({render(node[1])})'
    if op == 'alias':
        return f'type A = {render(node[1])}'
    return '?'


def size(node) -> int:
    if not isinstance(node, list):
        return 0
    n = 1
    for x in node[1:]:
        if isinstance(x, list):
            if x and isinstance(x[0], str) and x[0] in OPS:
                n += size(x)
            else:
                n += sum(size(y) for y in x if isinstance(y, list))
        elif isinstance(x, int) and node[0] == 'deep':
            n += x
    return n


OPS = {'n', 'v', 's', 'fr', 't', 'sub', 'ga', 'or', 'deep', 'h', 'is', 'hook', 'tv', 'nt', 'alias'}


def children(node):
    """[(child node, rebuild function child' -> node')]"""
    op = node[0]
    out = []

    def lst(pos):
        for i, c in enumerate(node[pos]):
            out.append((c, lambda c2, i=i: node[:pos] + [node[pos][:i] + [c2] + node[pos][i + 1:]] + node[pos + 1:]))
    if op == 'v' and isinstance(node[2], list):
        lst(2)
    elif op in ('t', 'or'):
        lst(1)
    elif op in ('sub', 'ga'):
        out.append((node[1], lambda c2: [op, c2, node[2]]))
        lst(2)
    elif op == 'deep':
        out.append((node[3], lambda c2: ['deep', node[1], node[2], c2]))
    elif op == 'tv':
        if node[1] is not None:
            out.append((node[1], lambda c2: ['tv', c2, node[2]]))
        lst(2)
    elif op in ('nt', 'alias'):
        out.append((node[1], lambda c2: [op, c2]))
    return out


def shrinks(node):
    """strictly simpler candidates, most aggressive first (deterministic order)"""
    INT = ['n', 'int']
    cands = []
    for c, _ in children(node):            # 1. replace the node by one of its children
        cands.append(c)
    op = node[0]
    if op in ('sub', 'ga') and len(node[2]) >= 1:         # 2. drop an argument (down to none)
        for i in range(len(node[2])):
            cands.append([op, node[1], node[2][:i] + node[2][i + 1:]])
    if op in ('t', 'or') and len(node[1]) > 1:
        for i in range(len(node[1])):
            cands.append([op, node[1][:i] + node[1][i + 1:]])
    if op == 'v' and isinstance(node[2], list) and node[2]:
        for i in range(len(node[2])):
            cands.append(['v', node[1], node[2][:i] + node[2][i + 1:]])
    if op == 'deep':                                      # 3. the plainest head / fewer levels (1, then halving)
        if node[1] != 'list':
            cands.insert(0, ['deep', 'list', node[2], node[3]])
        for n in (1, node[2] // 2):
            if 0 < n < node[2]:
                cands.append(['deep', node[1], n, node[3]])
    if op in ('sub', 'ga') and node[1] != ['n', 'list'] and len(node[2]) >= 1:   # 4. the plainest head
        for a in node[2]:
            cands.append([op, ['n', 'list'], [a]])
    if op == 'ga':
        cands.append(['sub', node[1], node[2]])
    if op in ('is', 'hook') and len(node[1]) > 1:
        cands.append([op, node[1][-1:]])
    if op == 's' and len(node[1]) > 12:
        cands.append(['s', node[1][:len(node[1]) // 2]])
    if op == 'tv' and node[1] is not None and node[2]:
        cands.append(['tv', node[1], []])
        cands.append(['tv', None, node[2]])
    FIVE = ['v', 'int', 5]
    for c, rebuild in children(node):                     # 5. replace a child by `int` / by the plainest non-hint, `5`
        if c != INT:
            cands.append(rebuild(INT))
    for c, rebuild in children(node):
        if c != INT and c != FIVE:
            cands.append(rebuild(FIVE))
    for c, rebuild in children(node):
        for c2 in shrinks(c):
            cands.append(rebuild(c2))
    seen, out = set(), []
    for c in cands:
        k = repr(c)
        if k not in seen and c != node:
            seen.add(k)
            out.append(c)
    return out


# ---------------------------------------------------------------------------------------------------------
# generator
# ---------------------------------------------------------------------------------------------------------
def N(name):
    return ['n', name]


def gen_valid(rng: random.Random, depth: int):
    if depth <= 0 or rng.random() < 0.3:
        return N(rng.choice(VALID_CLASSES + ['Any', 'None', 'LiteralString', 'T', 'cabc.Hashable']))
    r = rng.random()
    if r < 0.3:
        return ['sub', N(rng.choice(['list', 'set', 'frozenset', 'List', 'Sequence', 'cabc.Sequence', 'Iterable', 'deque', 'Optional',
                                     'type', 'cabc.Collection', 'GenericUser'])),
                [gen_valid(rng, depth - 1)]]
    if r < 0.42:
        return ['sub', N(rng.choice(['dict', 'Dict', 'Mapping', 'cabc.Mapping', 'defaultdict'])), [N(rng.choice(['str', 'int'])), gen_valid(rng, depth - 1)]]
    if r < 0.52:
        return ['sub', N(rng.choice(['tuple', 'Tuple'])), [gen_valid(rng, depth - 1) for _ in range(rng.randint(1, 3))]]
    if r < 0.58:
        return ['sub', N('tuple'), [gen_valid(rng, depth - 1), N('Ellipsis')]]
    if r < 0.7:
        return ['sub', N('Union'), [gen_valid(rng, depth - 1) for _ in range(rng.randint(2, 3))]]
    if r < 0.76:
        return ['or', [gen_valid(rng, depth - 1) for _ in range(2)]]
    if r < 0.84:
        return ['sub', N('Literal'), [rng.choice([['v', 'int', 1], ['v', 'str', 'a'], N('None'), N('True'), ['v', 'bytes', 'b'], N('EnumC.A')])
                                      for _ in range(rng.randint(1, 2))]]
    if r < 0.92:
        return ['sub', N('Annotated'), [gen_valid(rng, depth - 1), rng.choice([['is', ['T']], ['v', 'int', 0], ['v', 'str', 'meta'], ['is', ['F']]])]]
    return ['sub', N('Callable'), [['v', 'list', [N('int')]], N('str')]] if rng.random() < 0.5 else ['sub', N('Callable'), [N('Ellipsis'), N('int')]]


def gen_nonhint(rng: random.Random):
    r = rng.random()
    if r < 0.45:
        return N(rng.choice(NONHINT_VALUES))
    if r < 0.6:
        return rng.choice([['v', 'int', 5], ['v', 'int', 0], ['v', 'int', -1], ['v', 'float', 3.5], ['v', 'bytes', 'x'], ['v', 'int', 2 ** 70]])
    if r < 0.8:
        return ['v', rng.choice(['list', 'set', 'dict']), [N('int')] if rng.random() < 0.6 else []]
    return ['h', rng.choice(HOSTILE)]


def gen_string(rng: random.Random):
    return ['s', rng.choice([
        'int', 'nonexistent', '1+', '', ' ', 'list[int]', 'list[nonexistent]', 'int | nonexistent', 'a.b.c', 'lambda: 0', 'Ünïcode',
        'x' * 5000, 'sys', 'typing.List', '...', 'None', 'Optional[int]', 'list[', 'int)', '"int"', 'int\n', 'class', '__import__("os")',
        'nonexistent.attr', 'sys.nonexistent', 'int.nonexistent', '[int]', '(int, str)', 'list[int, str]', '5', 'True', 'Plain',
        'harness.impl.c11_hints.Plain', 'harness.impl.c11_hints.nonexistent', 'harness.nonexistent.Plain', 'T', 'dict[str, "int"]',
        'int if True else str', 'await x', 'yield', 'x := int', '*int', '**int', 'int; str', '\x00', 'a' + '.a' * 300])]


def gen_unhashable_piece(rng: random.Random):
    return rng.choice([['v', 'list', []], ['v', 'list', [['v', 'int', 1]]], ['v', 'dict', []], ['v', 'set', []], ['v', 'list', [N('int')]],
                       N('CUnhash'), ['h', 'HHash'], N('CHash'), ['v', 'dict', [N('int')]]])


CATEGORIES = ['unsupported', 'arity', 'unhashable', 'nonhint', 'string', 'hostile', 'deep', 'bare', 'nested-bad', 'typevar',
              'alias', 'literal', 'annotated', 'tuple', 'valid', 'callable', 'union']
CATEGORY_WEIGHTS = [4, 4, 4, 4, 4, 4, 1, 3, 4, 4, 2, 4, 4, 4, 3, 4, 4]      # deeply nested hints cost seconds each: rare


def how(rng: random.Random, head: str) -> str:
    """subscription (validated by typing) or types.GenericAlias(head, …) (no validation: wrong arities, non-hints);
    types.GenericAlias(<typing special form>, …) is kept but rare — nobody builds such objects and each breaks beartype
    in its own (listed) way"""
    if head in TYPING_FORMS:
        return 'ga' if rng.random() < 0.04 else 'sub'
    return 'ga' if rng.random() < 0.55 else 'sub'


def gen_malformed(rng: random.Random, depth: int = 2):
    """one malformed hint; the category label is returned for the distribution"""
    cat = rng.choices(CATEGORIES, weights=CATEGORY_WEIGHTS)[0]
    v = lambda: gen_valid(rng, depth - 1)
    if cat == 'valid':
        return cat, gen_valid(rng, depth + 1)
    if cat == 'unsupported':
        sf = N(rng.choice(SPECIAL_FORMS))
        r = rng.random()
        if r < 0.4:
            return cat, sf
        if r < 0.7:
            return cat, ['sub', sf, [v() for _ in range(rng.randint(1, 2))]]
        return cat, ['sub', N(rng.choice(CONTAINER_HEADS_1)), [['sub', sf, [v()]] if rng.random() < 0.5 else sf]]
    if cat == 'bare':
        return cat, N(rng.choice(SPECIAL_FORMS + list(CONTAINER_HEADS_1) + list(CONTAINER_HEADS_2)))
    if cat == 'arity':
        head = N(rng.choice(CONTAINER_HEADS_1 + CONTAINER_HEADS_2 + ['tuple', 'Tuple', 'Callable', 'cabc.Callable', 'cabc.Generator',
                                                                      'Generator', 'cabc.Coroutine', 'Annotated', 'Literal', 'Union',
                                                                      'Optional', 'int', 'Plain', 'CGI2', 'DC', 'NT', 'TD', 'ProtoUser']))
        n = rng.choice([0, 0, 1, 2, 3, 4])
        args = [rng.choice([v(), N('Ellipsis'), v(), ['t', []], ['v', 'list', [N('int')]]]) for _ in range(n)]
        return cat, [how(rng, head[1]), head, args]
    if cat == 'unhashable':
        u = gen_unhashable_piece(rng)
        r = rng.random()
        if r < 0.25:
            inner = ['sub', N('Annotated'), [v(), u]]
        elif r < 0.5:
            inner = ['sub', N('Literal'), [u]]
        elif r < 0.65:
            h1 = rng.choice(CONTAINER_HEADS_1)
            inner = [how(rng, h1), N(h1), [u]]
        elif r < 0.8:
            h2 = rng.choice(CONTAINER_HEADS_2)
            inner = [how(rng, h2), N(h2), [u, v()] if rng.random() < 0.5 else [v(), u]]
        elif r < 0.9:
            inner = u
        else:
            inner = ['sub', N('Callable'), [['v', 'list', [u]], v()]]
        if rng.random() < 0.5:
            inner = rng.choice([['sub', N('list'), [inner]], ['sub', N('Union'), [inner, N('str')]], ['sub', N('dict'), [N('str'), inner]],
                                ['sub', N('Optional'), [inner]], ['sub', N('tuple'), [inner, N('Ellipsis')]], ['t', [N('int'), inner]],
                                ['sub', N('Annotated'), [inner, ['is', ['T']]]]])
        return cat, inner
    if cat == 'nonhint':
        x = gen_nonhint(rng)
        r = rng.random()
        if r < 0.45:
            return cat, x
        if r < 0.75:
            h1 = rng.choice(CONTAINER_HEADS_1)
            return cat, [how(rng, h1), N(h1), [x]]
        if r < 0.9:
            h2 = rng.choice(CONTAINER_HEADS_2)
            return cat, [how(rng, h2), N(h2), [x, v()] if rng.random() < 0.5 else [v(), x]]
        return cat, ['sub', N('Union'), [v(), x]]
    if cat == 'string':
        s = gen_string(rng)
        r = rng.random()
        if r < 0.5:
            return cat, s
        if r < 0.6:
            return cat, ['fr', s[1]]
        if r < 0.85:
            return cat, ['sub', N(rng.choice(CONTAINER_HEADS_1)), [s]]
        return cat, ['sub', N('Union'), [v(), s]]
    if cat == 'hostile':
        x = rng.choice([['h', rng.choice(HOSTILE)], N(rng.choice(HOSTILE_CLASSES))])
        r = rng.random()
        if r < 0.3:
            return cat, x
        if r < 0.5:
            h1 = rng.choice(CONTAINER_HEADS_1)
            return cat, [how(rng, h1), N(h1), [x]]
        if r < 0.6:
            return cat, ['sub', N('Literal'), [x]]
        if r < 0.75:
            return cat, ['sub', N('Annotated'), [v(), x]]
        if r < 0.85:
            return cat, ['t', [N('int'), x]]
        if r < 0.92:
            return cat, ['sub', x, [v()]]
        return cat, ['tv', x, []] if rng.random() < 0.5 else ['nt', x]
    if cat == 'deep':
        n = rng.choice([20, 60, 120, 200, 250, 254, 255, 256, 257, 300, 400, 600, 1000, 1500, 3000])
        head = rng.choice(list(DEEP_HEADS))
        if head in SLOW_DEEP_HEADS:          # beartype's cost explodes with depth there (no verdict, only time)
            n = rng.choice([5, 10, 20, 30])
        return cat, ['deep', head, n, rng.choice([N('int'), N('int'), ['v', 'int', 5], N('ClassVar'), ['s', 'nonexistent']])]
    if cat == 'nested-bad':
        bad = rng.choice([gen_nonhint(rng), N(rng.choice(SPECIAL_FORMS)), gen_string(rng), ['ga', N('list'), [N('int'), N('str')]],
                          ['ga', N('dict'), [N('int')]], ['t', []], ['t', [N('int'), ['v', 'int', 5]]]])
        h = bad
        for _ in range(rng.randint(1, 3)):
            r = rng.random()
            if r < 0.35:
                h = ['sub', N(rng.choice(CONTAINER_HEADS_1)), [h]]
            elif r < 0.55:
                h = ['sub', N(rng.choice(['dict', 'Mapping', 'cabc.Mapping'])), [N('str'), h] if rng.random() < 0.7 else [h, N('int')]]
            elif r < 0.7:
                h = ['sub', N('Union'), [N('int'), h]]
            elif r < 0.8:
                h = ['sub', N('tuple'), [h, N('Ellipsis')] if rng.random() < 0.5 else [N('str'), h]]
            elif r < 0.9:
                h = ['sub', N('Annotated'), [h, ['is', ['T']]]]
            else:
                h = ['sub', N('Callable'), [['v', 'list', [h]], N('int')]] if rng.random() < 0.5 else ['sub', N('Callable'), [N('Ellipsis'), h]]
        return cat, h
    if cat == 'typevar':
        r = rng.random()
        x = rng.choice([gen_nonhint(rng), N(rng.choice(SPECIAL_FORMS)), v(), gen_string(rng), ['ga', N('list'), [N('int'), N('str')]]])
        if r < 0.3:
            return cat, ['tv', x, []]
        if r < 0.5:
            return cat, ['tv', None, [x, v()]]
        if r < 0.7:
            return cat, ['nt', x]
        if r < 0.85:
            return cat, ['sub', N(rng.choice(['GenericUser', 'list', 'Generic2'])), [['tv', x, []]] * (1 if rng.random() < 0.7 else 2)]
        return cat, ['sub', N(rng.choice(['Generic', 'Protocol', 'GenericUser', 'Generic2', 'Unpack', 'Concatenate', 'Callable'])),
                     [rng.choice([N('T'), N('P'), N('Ts'), v(), ['sub', N('Unpack'), [N('Ts')]]]) for _ in range(rng.randint(1, 2))]]
    if cat == 'alias':
        r = rng.random()
        # (`type A = A` itself is left out: beartype never returns from it — a hang, not an exception)
        body = rng.choice([['sub', N('list'), [N('ALIAS_SELF')]], ['sub', N('Union'), [N('int'), ['sub', N('list'), [N('ALIAS_SELF')]]]],
                           gen_nonhint(rng), N(rng.choice(SPECIAL_FORMS)), gen_string(rng), v(), ['ga', N('list'), [N('int'), N('str')]],
                           ['sub', N('dict'), [N('str'), N('ALIAS_SELF')]], ['or', [N('ALIAS_SELF'), N('None')]]])
        a = ['alias', body]
        if r < 0.6:
            return cat, a
        return cat, ['sub', N(rng.choice(['list', 'Optional', 'Union'])), [a] if rng.random() < 0.7 else [a, N('int')]]
    if cat == 'literal':
        vals = [rng.choice([gen_nonhint(rng), gen_unhashable_piece(rng), v(), ['v', 'float', 3.4], ['t', []], ['t', [['v', 'int', 1]]],
                            N('EnumC'), N('EnumC.A'), ['v', 'int', 1], N('None'), ['sub', N('Literal'), [['v', 'int', 1]]], N('Ellipsis')])
                for _ in range(rng.randint(0, 2))]
        return cat, [how(rng, 'Literal'), N('Literal'), vals]
    if cat == 'annotated':
        metas = [rng.choice([gen_nonhint(rng), gen_unhashable_piece(rng), ['is', rng.choice([['T'], ['F'], ['N']])], v(),
                             N(rng.choice(SPECIAL_FORMS))]) for _ in range(rng.randint(0, 2))]
        base = rng.choice([v(), gen_nonhint(rng), N(rng.choice(SPECIAL_FORMS)), gen_string(rng), ['ga', N('list'), [N('int'), N('str')]]])
        return cat, [how(rng, 'Annotated'), N('Annotated'), [base] + metas]
    if cat == 'tuple':
        items = [rng.choice([v(), N('Ellipsis'), gen_nonhint(rng), gen_string(rng), ['t', []], N(rng.choice(SPECIAL_FORMS)),
                             ['sub', N('Unpack'), [N('Ts')]], ['sub', N('Unpack'), [['sub', N('tuple'), [N('int'), N('Ellipsis')]]]]])
                 for _ in range(rng.randint(0, 4))]
        r = rng.random()
        if r < 0.3:
            return cat, ['t', items]
        head = rng.choice(['tuple', 'tuple', 'Tuple'])
        return cat, [how(rng, head), N(head), items]
    if cat == 'callable':
        params = rng.choice([N('Ellipsis'), ['v', 'list', [v()]], ['v', 'list', [gen_nonhint(rng)]], N('P'), v(), ['v', 'list', []],
                             ['sub', N('Concatenate'), [N('int'), N('P')]], gen_nonhint(rng), ['t', [N('int')]]])
        ret = rng.choice([v(), gen_nonhint(rng), N(rng.choice(SPECIAL_FORMS)), gen_string(rng)])
        args = rng.choice([[params, ret], [params], [params, ret, v()], []])
        head = rng.choice(['Callable', 'cabc.Callable'])
        return cat, [how(rng, head), N(head), args]
    if cat == 'union':
        items = [rng.choice([v(), gen_nonhint(rng), N(rng.choice(SPECIAL_FORMS)), gen_string(rng), gen_unhashable_piece(rng),
                             ['h', rng.choice(HOSTILE)], N(rng.choice(HOSTILE_CLASSES))]) for _ in range(rng.randint(1, 3))]
        return cat, [rng.choice(['sub', 'sub', 'sub', 'or', 'or', 'sub', how(rng, 'Union')]), N('Union'), items] if rng.random() < 0.7 else ['or', items]
    raise AssertionError(cat)


def normalise(node):
    """`['or', N('Union'), items]` produced by the union generator is not a node: fix the shape"""
    if node[0] == 'or' and len(node) == 3:
        return ['or', node[2]]
    return node
