"""C17 — the real side: value pool, value encoder (Python object -> model `Val` s-expression)
and the fresh-process runner of construction histories against real `BeartypeConf`.

Run as `python -m harness.impl.c17conf` with JSON on stdin:
    {"histories": [[op, ...], ...], "uncleared_first": bool}
    op = ["new", ENV, [[option, pool_index], ...]]      BeartypeConf(**kw) with ${BEARTYPE_IS_COLOR}=ENV (null = unset)
       | ["again", ENV, k]                              BeartypeConf(**obj.kwargs), obj = result of op #k of this history
The memo table `beartype._conf.confmain._beartype_conf_args_to_conf` is process-global: the
first history of a process runs on the table exactly as `import beartype` left it (when
`uncleared_first`), the table is emptied before every other history.

Everything the property can observe is reported per op: outcome class, identity class of the
returned object (first-occurrence numbering), `kwargs`, every public property,
`_is_warning_cls_on_decorator_exception_set`, the option names listed by `repr`, `hash`, and for
every pair of distinct objects of the history `==` / hash equality.
"""
from __future__ import annotations

import enum
import json
import os
import re
import sys
import warnings
from decimal import Decimal
from fractions import Fraction

ENV_NAME = 'BEARTYPE_IS_COLOR'


class FakeBool:
    def __bool__(self):
        return False


class ForeignEnum(enum.Enum):
    A = 1
    B = 2


class ForeignIntEnum(enum.IntEnum):
    ONE = 1
    TWO = 2
    THREE = 3


class UserExc(Exception):
    pass


class UserWarn(UserWarning):
    pass


class NotExc(BaseException):
    pass


class _ConstHashMeta(type):
    """distinct, unequal classes with EQUAL hashes: parameter tuples that differ only in them collide in hash"""
    def __hash__(cls):
        return 7


class CollideA(Exception, metaclass=_ConstHashMeta):
    pass


class CollideB(Exception, metaclass=_ConstHashMeta):
    pass


_W = None


def world():
    """Static registries shared (index-aligned) by the harness process and the subprocesses."""
    global _W
    if _W is not None:
        return _W
    from beartype import (BeartypeConf, BeartypeDecorPlace, BeartypeStrategy, BeartypeViolationVerbosity, FrozenDict)
    from beartype.roar import (BeartypeCallHintParamViolation, BeartypeCallHintReturnViolation, BeartypeClawDecorWarning,
                               BeartypeDoorHintViolation, BeartypeConfParamException)
    from beartype.roar._roarwarn import _BeartypeConfReduceDecoratorExceptionToWarningDefault as SENTINEL
    from beartype._data.typing.datatyping import Pep484TowerComplex, Pep484TowerFloat
    from beartype._data.func.datafuncarg import ARG_VALUE_UNPASSED

    class W:
        pass
    w = W()
    w.BeartypeConf, w.FrozenDict = BeartypeConf, FrozenDict
    w.enums = [BeartypeDecorPlace, BeartypeStrategy, BeartypeViolationVerbosity, ForeignEnum, ForeignIntEnum]
    w.classes = [SENTINEL, BeartypeDoorHintViolation, BeartypeCallHintParamViolation, BeartypeCallHintReturnViolation,
                 RuntimeError, TypeError, ValueError, AttributeError, Exception, Warning, UserWarning, DeprecationWarning,
                 BeartypeClawDecorWarning, UserExc, UserWarn, NotExc, BaseException, int, str, bool, complex, float, object,
                 BeartypeConfParamException, CollideA, CollideB]
    w.tower = {float: Pep484TowerFloat, complex: Pep484TowerComplex}
    w.unpassed = ARG_VALUE_UNPASSED
    w.ov_others = [complex, int, str, FakeBool, float]        # non-tower override targets, by ==
    w.item_others = [b'the vacancy', 1, 2.5, None, ('a',)]     # non-str collection items, by ==
    w.rests = [{}, {bool: FakeBool}, {1: int}, {int: []}, {str: int, bytes: str}, {'a': int, 'b.c': str}, {int: CollideA}, {int: CollideB}]   # FrozenDict minus float/complex keys, by ==
    w.dicts = [{}, {int: str}, {float: complex}, {'a': 1}]
    w.objs = [object(), 2.5, float('nan'), b'bytes', (i for i in ()), len, Ellipsis]
    FD = FrozenDict
    u = int(ARG_VALUE_UNPASSED)
    w.pool = [
        # 0-1 booleans, 2 None
        True, False, None,
        # 3-18 numeric look-alikes
        1, 0, 1.0, 0.0, Decimal(1), Decimal(0), Fraction(1), Fraction(0), 1 + 0j, 0j, 2, 2.0, 3, -1, u, float(u),
        # enum members
        *BeartypeDecorPlace, *BeartypeStrategy, *BeartypeViolationVerbosity, *ForeignEnum, *ForeignIntEnum,
        # classes
        *w.classes,
        # collections
        (), ('a',), ('a', 'b.c'), ('b.c', 'a'), ['a'], [], frozenset(), frozenset({'a'}), frozenset({'a', 'b.c'}), {'a'},
        'ab', '', 'a.b', 'no good', ('A pine,',), ('x', b'the vacancy'), ('a', ''), (1,), ['a', 'b.c'], ('a', 'a'),
        # frozen dictionaries and dictionaries
        FD({}), FD({bool: FakeBool}), FD({float: Pep484TowerFloat}), FD({float: complex}), FD({complex: int}),
        FD({float: None}), FD({1: int}), FD({True: int}), FD({int: []}), FD({complex: Pep484TowerComplex, bool: FakeBool}),
        FD({float: Pep484TowerFloat, complex: Pep484TowerComplex}), FD({str: int, bytes: str}), FD({float: 0, str: int, bytes: str}),
        {}, {int: str}, {float: complex}, FD({'a': int, 'b.c': str}), {'a': 1}, FD({int: CollideA}), FD({int: CollideB}),
        # one entry of the tower spelled as the tower does, the OTHER conflicting with it (each must be checked on its own)
        FD({float: Pep484TowerFloat, complex: int}), FD({float: str, complex: Pep484TowerComplex}),
        FD({float: Pep484TowerFloat, complex: str, bool: FakeBool}),
        # anything else
        *w.objs,
    ]
    _W = w
    return w


def _ident(s: str) -> bool:
    """every '.'-separated part is a Python identifier (plain CPython, independent of beartype)"""
    return all(p.isidentifier() for p in s.split('.'))


def _index_eq(lst, x):
    for i, y in enumerate(lst):
        try:
            if type(y) is type(x) and (y is x or y == x):
                return i
        except Exception:
            pass
    for i, y in enumerate(lst):
        try:
            if y is x or y == x:
                return i
        except Exception:
            pass
    raise KeyError(f'value outside the static registries: {x!r}')


def _item(x):
    if isinstance(x, str):
        return ['s', x, _ident(x)]
    return ['o', _index_eq(world().item_others, x)]


def _integral(x):
    try:
        return x == int(x)
    except Exception:
        return False


def encode(x):
    """Python object -> `Val` (nested lists; `common.sexp` prints it)."""
    w = world()
    if x is None:
        return 'none'
    if isinstance(x, bool):
        return ['b', x]
    if isinstance(x, enum.Enum):
        ci = w.enums.index(type(x))
        if isinstance(x, int):
            return ['ie', ci, int(x)]
        return ['e', ci, list(type(x)).index(x)]
    if isinstance(x, int):
        return ['n', 'int', x]
    if isinstance(x, float) and _integral(x):
        return ['n', 'float', int(x)]
    if isinstance(x, complex) and x.imag == 0 and _integral(x.real):
        return ['n', 'complex', int(x.real)]
    if isinstance(x, Decimal) and _integral(x):
        return ['n', 'decimal', int(x)]
    if isinstance(x, Fraction) and x.denominator == 1:
        return ['n', 'fraction', int(x)]
    if isinstance(x, type):
        i = next(i for i, c in enumerate(w.classes) if c is x)
        return ['c', i, issubclass(x, Exception), issubclass(x, Warning)]
    if isinstance(x, str):
        return ['k', 'str', [_item(c) for c in x]]
    if isinstance(x, tuple):
        return ['k', 'tuple', [_item(c) for c in x]]
    if isinstance(x, list):
        return ['k', 'list', [_item(c) for c in x]]
    if isinstance(x, (frozenset, set)):
        return ['k', 'fset' if isinstance(x, frozenset) else 'set', sorted((_item(c) for c in x), key=repr)]
    if isinstance(x, w.FrozenDict):
        def ov(k):
            if k not in x:
                return 'absent'
            v = x[k]
            if not v:
                return 'falsy'
            if v == w.tower[k]:
                return 'tower'
            return ['other', _index_eq(w.ov_others, v)]
        rest = {k: v for k, v in x.items() if k is not float and k is not complex}
        try:
            hash(x)
            h = True
        except TypeError:
            h = False
        return ['fd', ov(float), ov(complex), _index_eq(w.rests, rest), h, all(isinstance(k, str) and _ident(k) for k in x)]
    if isinstance(x, dict):
        return ['d', _index_eq(w.dicts, x), all(isinstance(k, str) and _ident(k) for k in x)]
    for i, y in enumerate(w.objs):
        if y is x:
            return ['o', i]
    raise KeyError(f'value outside the static registries: {x!r}')


OPTION_RE = None


def repr_names(conf, names) -> list[str]:
    """option names that `repr(conf)` lists as `name=` (top level: preceded by '(' or ', ')."""
    r = repr(conf)
    return [n for n in names if re.search(r'(?:\(|, )' + re.escape(n) + '=', r)]


def outcome_class(e: BaseException) -> str:
    from beartype.roar import BeartypeConfParamException, BeartypeConfShellVarException
    if type(e) is BeartypeConfParamException:
        return 'ParamException'
    if type(e) is BeartypeConfShellVarException:
        return 'ShellVarException'
    return 'raw:' + type(e).__name__


def clear_tables():
    """emulate a fresh memo state: empty EVERY module-level dict of beartype._conf.confmain (in the pinned
    source that is the one memo table `_beartype_conf_args_to_conf`)"""
    from beartype._conf import confmain
    for name, val in vars(confmain).items():
        if type(val) is dict and not name.startswith('__'):
            val.clear()


def run_history(history, names, clear: bool):
    w = world()
    from beartype._conf import confmain
    if clear:
        clear_tables()
    initial = len(confmain._beartype_conf_args_to_conf)
    objs: list = []       # distinct objects in order of first appearance
    results: list = []    # per op
    step_obj: list = []   # per op: the object or None
    for op in history:
        env = op[1]
        if env is None:
            os.environ.pop(ENV_NAME, None)
        else:
            os.environ[ENV_NAME] = env
        rec: dict = {}
        try:
            if op[0] == 'new':
                kw = {n: w.pool[i] for n, i in op[2]}
            else:
                src = step_obj[op[2]] if op[2] < len(step_obj) else None
                if src is None:
                    results.append({'out': 'skip'})
                    step_obj.append(None)
                    continue
                kw = dict(src.kwargs)
            with warnings.catch_warnings():
                warnings.simplefilter('ignore')
                c = w.BeartypeConf(**kw)
        except BaseException as e:   # noqa: BLE001 — every exception class is an observation
            if isinstance(e, (KeyboardInterrupt, SystemExit, MemoryError)):
                raise
            rec['out'] = outcome_class(e)
            rec['msg'] = str(e)[:200]
            results.append(rec)
            step_obj.append(None)
            continue
        k = next((i for i, o in enumerate(objs) if o is c), None)
        if k is None:
            objs.append(c)
            k = len(objs) - 1
        rec['out'] = 'conf'
        rec['obj'] = k
        try:
            rec['kwargs'] = [[n, encode(v)] for n, v in c.kwargs.items()]
            rec['props'] = [[n, encode(getattr(c, n))] for n in names]
        except KeyError as e:
            rec['encode_error'] = str(e)
        rec['warn_set'] = bool(c._is_warning_cls_on_decorator_exception_set)
        rec['repr_names'] = repr_names(c, names)
        rec['repr'] = repr(c)[:300]
        rec['table_size'] = len(confmain._beartype_conf_args_to_conf) - initial
        results.append(rec)
        step_obj.append(c)
    # every `new` op once more, alone, on an emptied table: what a fresh process would answer
    isolated = []
    for op in history:
        if op[0] != 'new':
            isolated.append(None)
            continue
        clear_tables()
        if op[1] is None:
            os.environ.pop(ENV_NAME, None)
        else:
            os.environ[ENV_NAME] = op[1]
        try:
            with warnings.catch_warnings():
                warnings.simplefilter('ignore')
                w.BeartypeConf(**{n: w.pool[i] for n, i in op[2]})
            isolated.append('conf')
        except BaseException as e:   # noqa: BLE001
            if isinstance(e, (KeyboardInterrupt, SystemExit, MemoryError)):
                raise
            isolated.append(outcome_class(e))
    clear_tables()
    os.environ.pop(ENV_NAME, None)
    pairs = []
    for i in range(len(objs)):
        for j in range(i + 1, len(objs)):
            a, b = objs[i], objs[j]
            pairs.append([i, j, bool(a == b), bool(b == a), bool(a != b), hash(a) == hash(b)])
    hashes_stable = all(hash(o) == hash(o) and o == o and not (o != o) for o in objs)
    return {'results': results, 'pairs': pairs, 'self_ok': hashes_stable, 'n_objs': len(objs), 'isolated': isolated}


def thread_burst(histories, rounds=6, nthreads=8):
    """smoke evidence for "from any thread": `nthreads` threads released together construct the same
    keyword dictionary on an emptied table; all must get one object (no controlled scheduler: C15)"""
    import threading
    w = world()
    from beartype._conf import confmain
    kws = []
    for h in histories:
        for op in h:
            if op[0] == 'new' and op[1] is None and len(kws) < rounds:
                kws.append(op[2])
    old = sys.getswitchinterval()
    sys.setswitchinterval(1e-6)
    bad = []
    try:
        for kwi in kws:
            clear_tables()
            kw = {n: w.pool[i] for n, i in kwi}
            bar = threading.Barrier(nthreads)
            got = [None] * nthreads

            def work(k):
                bar.wait()
                try:
                    with warnings.catch_warnings():
                        warnings.simplefilter('ignore')
                        got[k] = w.BeartypeConf(**kw)
                except BaseException as e:   # noqa: BLE001
                    got[k] = outcome_class(e)
            ts = [threading.Thread(target=work, args=(k,)) for k in range(nthreads)]
            [t.start() for t in ts]
            [t.join() for t in ts]
            if not all((g is got[0]) or (isinstance(g, str) and g == got[0]) for g in got):
                bad.append(kwi)
    finally:
        sys.setswitchinterval(old)
        clear_tables()
    return {'rounds': len(kws), 'bad': bad}


def initial_table(names):
    """what `import beartype` left in the memo table, in insertion order"""
    from beartype._conf import confmain
    out = []
    for c in confmain._beartype_conf_args_to_conf.values():
        out.append({'repr': repr(c), 'kwargs': [[n, encode(v)] for n, v in c.kwargs.items()]})
    return out


ANCHORED = ('beartype/_conf/confmain.py', 'beartype/_conf/conftest.py', 'beartype/_conf/_confoverrides.py',
            'beartype/_conf/_confget.py', 'beartype/_conf/confcommon.py')


def executable_lines(path):
    """line numbers carrying code in functions/methods of `path` (module-level statements run at import)"""
    lines = set()

    def walk(code):
        if code.co_flags & 0x1:      # CO_OPTIMIZED: a function body (module and class bodies run at import)
            lines.update(ln for _, _, ln in code.co_lines() if ln is not None and ln > code.co_firstlineno + 1)
        for c in code.co_consts:
            if hasattr(c, 'co_lines'):
                walk(c)
    walk(compile(open(path).read(), path, 'exec'))
    return lines


def main():
    os.environ.pop(ENV_NAME, None)
    payload = json.loads(sys.stdin.read())
    world()
    names = payload['names']
    out = {'initial': initial_table(names), 'runs': []}
    hit: dict = {}
    if payload.get('coverage'):
        mon = sys.monitoring
        mon.use_tool_id(mon.COVERAGE_ID, 'c17')

        def on_line(code, line):
            f = code.co_filename
            if '/beartype/_conf/' in f:
                hit.setdefault(f, set()).add(line)
            return mon.DISABLE
        mon.register_callback(mon.COVERAGE_ID, mon.events.LINE, on_line)
        mon.set_events(mon.COVERAGE_ID, mon.events.LINE)
    for k, h in enumerate(payload['histories']):
        clear = not (k == 0 and payload.get('uncleared_first'))
        out['runs'].append(run_history(h, names, clear))
    if payload.get('coverage'):
        sys.monitoring.set_events(sys.monitoring.COVERAGE_ID, 0)
        sys.monitoring.free_tool_id(sys.monitoring.COVERAGE_ID)
        import beartype
        root = os.path.dirname(os.path.dirname(beartype.__file__))
        cov = {}
        for rel in ANCHORED:
            path = os.path.join(root, rel)
            ex = executable_lines(path)
            got = hit.get(path, set()) & ex
            cov[rel] = {'executable_in_functions': len(ex), 'executed': len(got), 'not_executed': sorted(ex - got)[:60]}
        out['coverage'] = cov
    if payload.get('threads'):
        out['threads'] = thread_burst(payload['histories'])
    sys.stdout.write(json.dumps(out) + '\n')


if __name__ == '__main__':
    main()
