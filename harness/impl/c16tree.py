"""C16 — scratch source trees and the subprocess launcher (used by harness/props/c16.py and
harness/extract/pyc.py). Everything lives under one tempfile.mkdtemp() directory; the interpreter
runs get `-S -X pycache_prefix=<scratch>/pyc` (no site-packages: stdlib + beartype only), PYTHONDONTWRITEBYTECODE removed and $VERIF_REPO first
on PYTHONPATH, so nothing is ever written under /repo or /verif."""
from __future__ import annotations

import json
import os
import subprocess
from pathlib import Path

from ..common import PY, REPO, VERIF

RUNNER = str(VERIF / 'harness/impl/c16run.py')
T0 = 1_600_000_000          # mtime of version v of a module = T0 + 100*v (explicit: no reliance on clock granularity)
MODULES = ['pkg.ma', 'pkg.mb', 'other.mc']
PACKAGES = ['pkg', 'other']

DECOS = '''\
"""ordinary decorators that record whether their operand was already wrapped by beartype"""
LOG = []


def _is_bt(obj):
    if isinstance(obj, type):
        obj = obj.__dict__.get('m')
    return hasattr(obj, '__beartype_wrapper')


def plain(obj):
    LOG.append(('plain', obj.__module__, obj.__qualname__, _is_bt(obj)))
    return obj
'''

HOSTILE = '''\
"""stand-in for the decorator-hostile `langchain_core.runnables.chain` (the transformer only looks at the name)"""
from c16decos import LOG, _is_bt


def chain(obj):
    LOG.append(('chain', obj.__module__, obj.__qualname__, _is_bt(obj)))
    return obj
'''


def module_source(name: str, v: int) -> str:
    """Version `v` of a leaf module. The annotations alternate with the version so that a
    stale cache is visible in every probe; VERSION makes it visible without any hook."""
    t, bad, good = ('int', "'bad'", '1') if v % 2 == 0 else ('str', '0', "'good'")
    return f'''\
from langchain_core.runnables import chain
from c16decos import plain
VERSION = {v}
NAME = {name!r}
x: {t} = {good}


def f(a: {t}) -> None:
    return None


def assign():
    y: {t} = {bad}
    return y


@chain
@plain
def g(a: int) -> None:
    return None


@chain
@plain
class K:
    def m(self, a: int) -> None:
        return None
'''


def write_version(tree: Path, mod: str, v: int):
    p = tree / (mod.replace('.', '/') + '.py')
    p.write_text(module_source(mod, v))
    os.utime(p, (T0 + 100 * v, T0 + 100 * v))


def make_tree(tree: Path, version: int = 0, modules=None):
    modules = MODULES if modules is None else modules
    packages = sorted({m.split('.')[0] for m in modules})
    for pkg in packages + ['langchain_core']:
        (tree / pkg).mkdir(parents=True, exist_ok=True)
        (tree / pkg / '__init__.py').write_text('')
    (tree / 'c16decos.py').write_text(DECOS)
    (tree / 'langchain_core' / 'runnables.py').write_text(HOSTILE)
    for f in [tree / 'c16decos.py', tree / 'langchain_core/runnables.py', tree / 'langchain_core/__init__.py'] + \
            [tree / p / '__init__.py' for p in packages]:
        os.utime(f, (T0, T0))
    for m in modules:
        write_version(tree, m, version)


def run_once(prefix: Path, payload: dict, timeout=600) -> dict:
    """One fresh interpreter over the tree."""
    env = {k: v for k, v in os.environ.items() if k not in ('PYTHONDONTWRITEBYTECODE', 'PYTHONPATH', 'PYTHONOPTIMIZE')}
    env['PYTHONPATH'] = str(REPO)
    env['PYTHONHASHSEED'] = '0'
    payload = dict(payload, prefix=str(prefix))
    p = subprocess.run([PY, '-S', '-X', f'pycache_prefix={prefix}', RUNNER], input=json.dumps(payload), capture_output=True,
                       text=True, timeout=timeout, env=env, cwd=str(prefix.parent))
    if p.returncode != 0 or not p.stdout.strip():
        raise RuntimeError(f'c16run failed rc={p.returncode}: {p.stderr[-3000:]}')
    res = json.loads(p.stdout.strip().splitlines()[-1])
    bt = Path(res['beartype_file']).resolve()
    assert bt == (REPO / 'beartype').resolve(), f'subprocess imported beartype from {bt}, expected {REPO}/beartype'
    return res
