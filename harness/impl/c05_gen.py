"""C05 — grammar-based generators of Python modules.

gen_structural : syntactic variety for the transformer tie (all nestings of the quantifier; need not run)
enum_small     : exhaustive small modules (<= k statements from a fixed alphabet, nesting depth 2)
gen_runnable   : executable programs for the behaviour tie (call-counting side effects, marked offending
                 statements, unsupported hints, decorator stacks incl. decorator-hostile ones)
"""
from __future__ import annotations

import itertools
import random

# ---------------------------------------------------------------------------
# stub packages shadowing the real decorator-hostile third-party packages in the scratch tree
# ---------------------------------------------------------------------------
STUBS = {
    'celery/__init__.py': '''
class Task:
    def __init__(self, f):
        self.run = f
class Celery:
    def __init__(self, *a, **k):
        pass
    def task(self, *a, **k):
        if len(a) == 1 and callable(a[0]) and not k:
            return Task(a[0])
        return lambda f: Task(f)
''',
    'fastmcp/__init__.py': '''
class Tool:
    def __init__(self, f):
        self.fn = f
class FastMCP:
    def __init__(self, *a, **k):
        pass
    def tool(self, *a, **k):
        if len(a) == 1 and callable(a[0]) and not k:
            return Tool(a[0])
        return lambda f: Tool(f)
''',
    'langchain_core/__init__.py': '',
    'langchain_core/runnables/__init__.py': '''
class Runnable:
    def __init__(self, f):
        self.invoke = f
def chain(f):
    return Runnable(f)
''',
}

# ---------------------------------------------------------------------------
# structural generator
# ---------------------------------------------------------------------------
S_IMPORTS = [
    'import os', 'import celery', 'import os, celery', 'import celery, os', 'import celery.app as ca',
    'import fastmcp', 'import langchain_core.runnables', 'from celery import Celery', 'from celery import Celery as C',
    'from celery import Celery, shared_task', 'from langchain_core.runnables import chain',
    'from langchain_core.runnables import chain as ch', 'from langchain_core import runnables',
    'from fastmcp import FastMCP', 'from . import sib', 'from .sub import thing', 'from os import path',
    'from celery.app import base', 'from celery import *', 'import sys as celery',
]
S_ASSIGNS = [
    'app = Celery("x")', 'a1 = a2 = Celery()', 'mcp = FastMCP("n")', 'app: Celery = Celery()', 'app2 = celery.Celery()',
    'o.app = Celery()', 'q = app', 'r = chain(f)', 'capp = C()', 'app = Celery', 'mcp: FastMCP = make()',
    'app3: celery.Celery = None', 'x = y = f()', 'z = 1', 'app = make_app()', '(app4) = Celery()',
]
S_DECOS = [
    'deco', 'deco(1)', 'app.task', 'app.task(bind=True)', 'chain', 'ch', 'app2.task', 'a1.task', 'a2.task', 'mcp.tool',
    'mcp.tool()', 'capp.task', 'staticmethod', 'classmethod', 'mod.sub.deco', '(lambda f: f)', 'deco()()', 'celery.shared_task',
    'app.other', 'app3.task', 'app4.task', 'property', 'functools.wraps(g)', 'runnables.chain',
]
S_MISUSE_DECOS = ['Celery', 'celery.Celery', 'FastMCP', 'celery', 'app']
S_MISUSE_IMPORTS = ['from celery.Celery.task import z', 'from langchain_core.runnables.chain import y']
S_SIGS = ['(x: int)', '(x) -> int', '(*, k: int = 0)', '(*a: int)', '(**k: int)', '(x, /, y: "T" = None)', '(x=1)', '()',
          '(self)', '(self, x: int) -> None', '(x, *a, y=2, **k)', '(x: int = f(), *, y: str = g()) -> list[int]']
S_ANNS = ['v{n}: int = 1', 'v{n}: int', '(v{n}): int = 1', 'o.a{n}: int = 1', 'f().a{n}: int = g()', 'o.a.b{n}: "T" = 1',
          'd[k]: int = 1', 'd[k()][1]: int = v', 'self.x{n}: int = 3', 'v{n}: list[int] = []', 'v{n}: h() = 3',
          'o.c{n}: str', 'd[0]: int', 'v{n}: Celery = Celery()', 'v{n}: int = (yield)' ]
S_SIMPLE = ['x{n} = {n}', 'print(x)', 'x += 1', 'del x', 'assert x, "m"', 'f(x, y=[i for i in z])', 'g = lambda a: a',
            'pass', '...', '"a string"', '5', 'x, y = y, x', 'o.a = 1', 'd[k] = v', 'raise E(x)', 'x: int', 'import os']


class _Struct:
    def __init__(self, rng: random.Random):
        self.rng = rng
        self.lines: list[str] = []
        self.n = 0

    def emit(self, ind, text):
        self.lines.append('    ' * ind + text)

    def uid(self):
        self.n += 1
        return self.n

    def decos(self, ind, misuse):
        r = self.rng
        k = r.choice([0, 0, 0, 1, 1, 2, 3])
        for _ in range(k):
            pool = S_MISUSE_DECOS if (misuse and r.random() < 0.5) else S_DECOS
            self.emit(ind, '@' + r.choice(pool))

    def block(self, ind, ctx, depth, n):
        if n == 0:
            self.emit(ind, 'pass')
        for _ in range(n):
            self.stmt(ind, ctx, depth)

    def stmt(self, ind, ctx, depth):
        r = self.rng
        n = self.uid()
        deep = depth >= 4
        x = r.random()
        misuse = ctx.get('misuse', False)
        if x < 0.05:
            self.hostile_scene(ind, ctx, depth)
        elif x < 0.16:
            t = r.choice(S_ANNS)
            if '(yield)' in t and not (ctx.get('func') and not ctx.get('asyncf')):
                t = 'v{n}: int = 1'
            if 'self.' in t and not ctx.get('func'):
                t = t.replace('self.', 'o.')
            self.emit(ind, t.format(n=n))
        elif x < 0.26:
            self.emit(ind, r.choice(S_ASSIGNS))
        elif x < 0.36:
            if misuse and r.random() < 0.3:
                self.emit(ind, r.choice(S_MISUSE_IMPORTS))
            else:
                t = r.choice(S_IMPORTS)
                if t.endswith('*') and (ctx.get('func') or ctx.get('cls')):
                    t = 'from celery import Celery'
                self.emit(ind, t)
        elif x < 0.50:
            t = r.choice(S_SIMPLE).format(n=n)
            self.emit(ind, t)
            if ctx.get('func') and r.random() < 0.2:
                self.emit(ind, r.choice(['return x', 'yield x', 'return'] + (['await z'] if ctx.get('asyncf') else [])
                                        if not ctx.get('nojump') else ['x = 0']))
            if ctx.get('loop') and not ctx.get('nojump') and r.random() < 0.1:
                self.emit(ind, r.choice(['break', 'continue']))
        elif x < 0.66 and not deep:
            self.decos(ind, misuse)
            is_async = r.random() < 0.3
            self.emit(ind, ('async ' if is_async else '') + f'def f{n}{r.choice(S_SIGS)}:')
            if r.random() < 0.2:
                self.emit(ind + 1, '"""doc"""')
            self.block(ind + 1, {'func': True, 'asyncf': is_async, 'misuse': misuse}, depth + 1, r.randint(1, 3))
        elif x < 0.78 and not deep:
            self.decos(ind, misuse)
            self.emit(ind, f'class K{n}{r.choice(["", "(Base)", "(Base, metaclass=M)", "(*bases)"])}:')
            if r.random() < 0.2:
                self.emit(ind + 1, '"""doc"""')
            self.block(ind + 1, {'cls': True, 'misuse': misuse}, depth + 1, r.randint(1, 4))
        elif not deep:
            self.compound(ind, ctx, depth)
        else:
            self.emit(ind, f'x{n} = {n}')

    def hostile_scene(self, ind, ctx, depth):
        """beforelist import + tracked assignment + a decorator stack mixing hostile and ordinary decorators"""
        r = self.rng
        n = self.uid()
        imp, asg, hostile = r.choice([
            ('from celery import Celery', f'app{n} = Celery("x")', [f'app{n}.task', f'app{n}.task(bind=True)']),
            ('import celery', f'app{n} = celery.Celery()', [f'app{n}.task']),
            ('from fastmcp import FastMCP as F', f'app{n}: F = F("n")', [f'app{n}.tool', f'app{n}.tool()']),
            ('from langchain_core.runnables import chain', f'z{n} = 0', ['chain']),
            ('import langchain_core.runnables', f'z{n} = 0', ['langchain_core.runnables.chain']),
            ('import celery, os', f'app{n} = celery.Celery()', [f'app{n}.task']),
            ('import os, celery', f'app{n} = celery.Celery()', [f'app{n}.task']),
        ])
        self.emit(ind, imp)
        self.emit(ind, asg)
        stack = [r.choice(hostile) for _ in range(r.choice([1, 1, 2]))] + [r.choice(['deco', 'deco(1)', 'mod.d'])
                                                                            for _ in range(r.choice([0, 1, 1, 2]))]
        if r.random() < 0.25:
            r.shuffle(stack)
        for d in stack:
            self.emit(ind, '@' + d)
        if r.random() < 0.75:
            self.emit(ind, ('async ' if r.random() < 0.2 else '') + f'def h{n}(x: int) -> int:')
            self.block(ind + 1, {'func': True, 'asyncf': False, 'misuse': False}, depth + 4, 1)
        else:
            self.emit(ind, f'class H{n}:')
            self.block(ind + 1, {'cls': True}, depth + 4, 1)

    def compound(self, ind, ctx, depth):
        r = self.rng
        kinds = ['if', 'for', 'while', 'try', 'trystar', 'with', 'match']
        if ctx.get('asyncf'):
            kinds += ['asyncfor', 'asyncwith']
        k = r.choice(kinds)
        sub = lambda **kw: {**ctx, **kw}  # noqa: E731  (compound statements do not open scopes)
        b = lambda c=ctx: self.block(ind + 1, c, depth + 1, r.randint(1, 3))  # noqa: E731
        if k == 'if':
            self.emit(ind, 'if cond(x):')
            b()
            if r.random() < 0.5:
                self.emit(ind, 'elif other:')
                b()
            if r.random() < 0.5:
                self.emit(ind, 'else:')
                b()
        elif k in ('for', 'asyncfor'):
            self.emit(ind, ('async ' if k == 'asyncfor' else '') + 'for i in items():')
            b(sub(loop=True))
            if r.random() < 0.3:
                self.emit(ind, 'else:')
                b()
        elif k == 'while':
            self.emit(ind, 'while cond():')
            b(sub(loop=True))
            if r.random() < 0.3:
                self.emit(ind, 'else:')
                b()
        elif k == 'try':
            self.emit(ind, 'try:')
            b()
            hs = r.randint(0, 2)
            for i in range(hs):
                self.emit(ind, r.choice(['except E as e:', 'except (A, B):', 'except E:']))
                b()
            if hs and r.random() < 0.4:
                self.emit(ind, 'else:')
                b()
            if hs == 0 or r.random() < 0.4:
                self.emit(ind, 'finally:')
                b()
        elif k == 'trystar':
            self.emit(ind, 'try:')
            b()
            self.emit(ind, 'except* E as eg:')
            b(sub(nojump=True, loop=False))
        elif k in ('with', 'asyncwith'):
            self.emit(ind, ('async ' if k == 'asyncwith' else '') + r.choice(['with cm() as c:', 'with a(), b() as (p, q):']))
            b()
        else:
            self.emit(ind, 'match subj(x):')
            self.emit(ind + 1, 'case 1:')
            self.block(ind + 2, ctx, depth + 1, r.randint(1, 2))
            self.emit(ind + 1, 'case [a, b] if guard(a):')
            self.block(ind + 2, ctx, depth + 1, r.randint(1, 2))
            if r.random() < 0.5:
                self.emit(ind + 1, 'case _:')
                self.block(ind + 2, ctx, depth + 1, 1)


def gen_structural(rng: random.Random, misuse: bool = False) -> str:
    g = _Struct(rng)
    r = rng
    x = r.random()
    if x < 0.03:
        return ''
    if r.random() < 0.5:
        g.emit(0, r.choice(['"""module doc"""', "'doc'", '"""multi\nline\ndoc"""']))
    for _ in range(r.choice([0, 0, 1, 1, 2])):
        g.emit(0, r.choice(['from __future__ import annotations', 'from __future__ import division, generators']))
    if r.random() < 0.15:
        g.emit(0, r.choice(['"second constant"', '5', '...']))
    if r.random() < 0.06:
        return '\n'.join(g.lines) + '\n'          # prefix-only module
    g.block(0, {'misuse': misuse}, 0, r.randint(1, 7))
    return '\n'.join(g.lines) + '\n'


# exhaustive small modules ------------------------------------------------------
_LEAVES = [
    'v: int = 1', 'o.a: int = 1', 'd[k]: int = 1', 'w: int', 'x = 1', '"doc"', 'from __future__ import annotations',
    'from celery import Celery', 'app = Celery()',
]
_NEST = [
    ('def f(a: int):', 'func'), ('def g(a):', 'func'), ('async def h(a: int):', 'func'), ('class K:', 'cls'),
    ('if c:', None), ('@app.task\n@deco\ndef t(a: int):', 'func'), ('@deco\nclass D:', 'cls'),
]


def _render(items, ind=0):
    out = []
    for it in items:
        if isinstance(it, str):
            out.append('    ' * ind + it)
        else:
            head, body = it
            for h in head.split('\n'):
                out.append('    ' * ind + h)
            out.extend(_render(body, ind + 1))
    return out


_LEAVES14 = ['v: int = 1', 'o.a: int = 1', 'd[k]: int = 1', 'x = 1', '"doc"', 'from __future__ import annotations']
_NEST14 = [('def f(a: int):', 'func'), ('async def h(a: int):', 'func'), ('class K:', 'cls'), ('if c:', None)]
_INNER14 = ['v: int = 1', ('def m(a: int):', ['pass'])]


def enum_small(max_stmts: int, depth: int = 2, small: bool = False):
    """all sequences of <= max_stmts statements over leaves + one-child nests (nesting depth `depth`);
    `small`: the 14-form alphabet (6 leaves + 4 nests x 2 inner statements) used for 3-statement modules"""
    if small:
        alphabet = list(_LEAVES14) + [(h, [i]) for h, _ in _NEST14 for i in _INNER14]
        for k in range(1, max_stmts + 1):
            for combo in itertools.product(alphabet, repeat=k):
                yield '\n'.join(_render(combo)) + '\n'
        return

    def forms(d):
        fs = list(_LEAVES)
        if d > 0:
            inner = forms(d - 1)
            for head, _ in _NEST:
                for i in inner:
                    if isinstance(i, str) and i.startswith('from __future__'):
                        continue
                    fs.append((head, [i]))
        return fs
    alphabet = forms(depth - 1)
    for k in range(1, max_stmts + 1):
        for combo in itertools.product(alphabet, repeat=k):
            yield '\n'.join(_render(combo)) + '\n'


# ---------------------------------------------------------------------------
# runnable generator
# ---------------------------------------------------------------------------
PREAMBLE = '''import builtins, functools
calls = []
def tick(tag, v=None):
    calls.append(tag)
    return v
def mark(n):
    builtins.__dict__.setdefault('_c05_reached', []).append(n)
def missed(n):
    builtins.__dict__.setdefault('_c05_missed', []).append(n)
def caught(n, e):
    print('caught', n, type(e).__name__)
def run(co):
    try:
        co.send(None)
    except StopIteration as e:
        return e.value
def rec(f):
    print('#M rec', getattr(f, '__name__', type(f).__name__), hasattr(f, '__wrapped__'))
    return f
def fac(n):
    def d(f):
        calls.append('fac%d' % n)
        return f
    return d
def wrap(f):
    @functools.wraps(f)
    def w(*a, **k):
        print('#M w', f.__name__)
        return f(*a, **k)
    return w
class CM:
    def __init__(self, t):
        self.t = t
    def __enter__(self):
        calls.append('enter' + self.t)
        return self
    def __exit__(self, *a):
        calls.append('exit' + self.t)
        return False
class ACM:
    async def __aenter__(self):
        calls.append('aenter')
        return self
    async def __aexit__(self, *a):
        calls.append('aexit')
        return False
class AIT:
    def __init__(self, n):
        self.n = n
    def __aiter__(self):
        return self
    async def __anext__(self):
        if self.n <= 0:
            raise StopAsyncIteration
        self.n -= 1
        return self.n
class O:
    pass
o = O()
d = {}
'''

# (hint source, good value, bad value)
HINTS = [('int', '1', "'bad'"), ('str', "'s'", '0'), ('list[int]', '[1, 2]', "['x']"), ('int | None', 'None', "'bad'"),
         ('float', '1.5', "'bad'"), ('dict[str, int]', "{'a': 1}", "{'a': 'b'}"), ('tuple[int, ...]', '(1, 2)', "('x',)")]

# (params with {H}, return annotation with {H}, call arguments with {v}, returned expression, typed?)
SIGS = [('x: {H}', ' -> {H}', '{v}', 'x', True), ('x', ' -> {H}', '{v}', 'x', True), ('x: {H}', '', '{v}', 'x', True),
        ('*, k: {H}', '', 'k={v}', 'k', True), ('*a: {H}', '', '{v}', 'a[0]', True), ('x: {H}, /', '', '{v}', 'x', True),
        ('**kw: {H}', '', 'z={v}', "kw['z']", True), ('x', '', '{v}', 'x', False), ('x, y=0', '', '{v}', 'x', False)]

FAMILIES = ('clean', 'violating', 'unsupported', 'impure', 'subscript')


class _Run:
    def __init__(self, rng, conf, family):
        self.rng, self.conf, self.family = rng, conf, family
        self.lines: list[str] = []
        self.n = 0
        self.marks: dict[int, dict] = {}
        self.unsupported: list[str] = []
        self.uncaught_used = False
        self.pep526 = conf.get('claw_is_pep526', True)
        self.tower = conf.get('is_pep484_tower', False)
        self.viol = family in ('violating', 'unsupported')
        if family == 'unsupported':
            self.uncaught_used = True      # keep the import alive so that the unsupported definition is reached
        self.bad_placed = False

    def uid(self):
        self.n += 1
        return self.n

    def emit(self, ind, text):
        self.lines.append('    ' * ind + text)
        return len(self.lines)

    def hint(self):
        return self.rng.choice(HINTS)

    def offending(self, ind, text, kind):
        n = self.uid()
        caught = self.uncaught_used or self.rng.random() < 0.8
        if caught:
            self.emit(ind, 'try:')
            self.emit(ind + 1, f'mark({n})')
            ln = self.emit(ind + 1, text)
            self.emit(ind + 1, f'missed({n})')
            self.emit(ind, 'except Exception as e:')
            self.emit(ind + 1, f'caught({n}, e)')
        else:
            self.uncaught_used = True
            self.emit(ind, f'mark({n})')
            ln = self.emit(ind, text)
            self.emit(ind, f'missed({n})')
        self.marks[n] = {'line': ln, 'kind': kind, 'caught': caught}

    # -- statements -------------------------------------------------------------
    def block(self, ind, ctx, depth, n, allow_empty=False):
        k = len(self.lines)
        for _ in range(n):
            self.stmt(ind, ctx, depth)
        if len(self.lines) == k and not allow_empty:
            self.emit(ind, 'pass')

    def stmt(self, ind, ctx, depth):
        r = self.rng
        x = r.random()
        cls = ctx['scope'] == 'class'
        if x < 0.12:
            n = self.uid()
            self.emit(ind, r.choice([f"print('p', {n})", f"v{n} = tick('S{n}', {n})"]))
        elif x < 0.42:
            self.ann(ind, ctx)
        elif x < 0.60 and depth < 3:
            if cls:
                self.method(ind, ctx, depth, self.uid(), None)
            else:
                self.funcdef(ind, ctx, depth)
        elif x < 0.72 and depth < 2:
            self.classdef(ind, ctx, depth)
        elif x < 0.92 and depth < 3:
            self.compound(ind, ctx, depth)
        else:
            n = self.uid()
            self.emit(ind, f"print('q', {n})")

    def ann(self, ind, ctx):
        r = self.rng
        n = self.uid()
        cls = ctx['scope'] == 'class'
        h, good, bad = self.hint()
        shape = r.choice(['name', 'name', 'attr', 'attr', 'sub', 'noval', 'tower'] + (['iann'] if self.family == 'impure' else []))
        if shape == 'noval':
            self.emit(ind, f'n{n}: {h}')
            return
        if shape == 'tower' and not cls:
            # honoured configuration: `float` accepts an int only under is_pep484_tower=True
            text = f"t{n}: float = tick('V{n}', 7)"
            if self.tower or not self.pep526:
                self.emit(ind, text)
            elif self.viol:
                self.offending(ind, text, 'ann-name')
            return
        if shape == 'iann':
            self.emit(ind, f"a{n}: tick('A{n}', int) = 1")
            return
        unchecked = cls or not self.pep526
        want_bad = (unchecked and r.random() < 0.3) or (self.viol and r.random() < 0.4) or \
                   (self.family == 'subscript' and shape == 'sub' and r.random() < 0.6)
        if shape == 'sub' and want_bad and self.family != 'subscript' and not unchecked:
            want_bad = False
        val = f"tick('V{n}', {bad if want_bad else good})"
        if shape == 'name':
            tgt = f'a{n}'
        elif shape == 'attr':
            obj = 'self' if ctx.get('self') and r.random() < 0.6 else 'o'
            if self.family == 'impure' and r.random() < 0.6:
                obj = f"tick('T{n}', {obj})"
            tgt = f'{obj}.b{n}'
        else:
            key = f"'k{n}'"
            if self.family == 'impure' and r.random() < 0.5:
                key = f"tick('I{n}', {key})"
            tgt = f'd[{key}]'
        text = f'{tgt}: {h} = {val}'
        if want_bad and not unchecked:
            self.offending(ind, text, 'ann-' + shape)
        else:
            self.emit(ind, text)

    def sig(self, typed=None):
        r = self.rng
        s = r.choice([x for x in SIGS if typed is None or x[4] == typed])
        h, good, bad = self.hint()
        return s, h, good, bad

    def funcdef(self, ind, ctx, depth):
        r = self.rng
        n = self.uid()
        is_async = r.random() < 0.3
        unsup = self.family == 'unsupported' and not self.bad_placed and ctx['scope'] == 'module' and depth == 0 and r.random() < 0.5
        (params, ret, call, retexpr, typed), h, good, bad = self.sig(True if unsup else None)
        name = f'f{n}'
        decos = r.choice([[], [], [], ['rec'], ['fac(1)'], ['rec', 'fac(2)'], ['fac(3)', 'rec'], ['wrap']])
        if is_async:      # a sync functools.wraps wrapper around a coroutine function carries annotations it violates
            decos = [x for x in decos if x != 'wrap']
        if unsup:
            h = '3'
            self.bad_placed = True
            self.unsupported.append(name)
            decos = [x for x in decos if x != 'wrap']
        for dd in decos:
            self.emit(ind, '@' + dd)
        self.emit(ind, f"{'async ' if is_async else ''}def {name}({params.format(H=h)}){ret.format(H=h)}:")
        if r.random() < 0.2:
            self.emit(ind + 1, '"""doc"""')
        self.block(ind + 1, {'scope': 'func', 'self': False, 'asyncf': is_async}, depth + 1, r.randint(0, 2), True)
        self.emit(ind + 1, f'return {retexpr}')
        mk = (lambda v: f'run({name}({call.format(v=v)}))') if is_async else (lambda v: f'{name}({call.format(v=v)})')
        if 'wrap' in decos:
            self.emit(ind, f"print('r', {mk(good)})")
            return
        self.emit(ind, f"print('r', {mk(good if not unsup else bad)})")
        if self.viol and typed and not unsup and r.random() < 0.6:
            self.offending(ind, mk(bad), 'call-async' if is_async else 'call')

    def method(self, ind, ctx, depth, n, uses):
        """a method in a class body; `uses` collects (call maker, typed, name)"""
        r = self.rng
        kind = r.choice(['m', 'm', 'm', 'am', 's', 'c'])
        unsup = self.family == 'unsupported' and not self.bad_placed and uses is not None and depth <= 1 and r.random() < 0.5
        (params, ret, call, retexpr, typed), h, good, bad = self.sig(True if unsup else None)
        if unsup:
            h = '3'
            self.bad_placed = True
        name = f'{kind}{n}'
        if kind == 's':
            self.emit(ind, '@staticmethod')
            self.emit(ind, f'def {name}({params.format(H=h)}){ret.format(H=h)}:')
        elif kind == 'c':
            self.emit(ind, '@classmethod')
            self.emit(ind, f'def {name}(cls, {params.format(H=h)}){ret.format(H=h)}:')
        else:
            self.emit(ind, f"{'async ' if kind == 'am' else ''}def {name}(self, {params.format(H=h)}){ret.format(H=h)}:")
        self.block(ind + 1, {'scope': 'func', 'self': kind in ('m', 'am'), 'asyncf': kind == 'am'}, depth + 1, r.randint(0, 2), True)
        self.emit(ind + 1, f'return {retexpr}')
        if uses is not None:
            uses.append((kind, name, call, typed, good, bad, unsup))

    def classdef(self, ind, ctx, depth):
        r = self.rng
        n = self.uid()
        name = f'K{n}'
        for dd in r.choice([[], [], ['rec'], ['fac(4)'], ['rec', 'fac(5)']]):
            self.emit(ind, '@' + dd)
        self.emit(ind, f"class {name}{r.choice(['', '', '(O)'])}:")
        if r.random() < 0.2:
            self.emit(ind + 1, '"""doc"""')
        uses = []
        cctx = {'scope': 'class', 'self': False}
        for _ in range(r.randint(1, 4)):
            x = r.random()
            if x < 0.55:
                wrap_if = r.random() < 0.25
                if wrap_if:
                    self.emit(ind + 1, r.choice(["if tick('H%d', True):" % self.uid(), 'for _ in range(1):', 'try:']))
                    tri = self.lines[-1].strip() == 'try:'
                    self.method(ind + 2, cctx, depth + 1, self.uid(), uses)
                    if tri:
                        self.emit(ind + 1, 'finally:')
                        self.emit(ind + 2, 'pass')
                else:
                    self.method(ind + 1, cctx, depth + 1, self.uid(), uses)
            elif x < 0.85:
                self.ann(ind + 1, cctx)
            elif depth < 1:
                self.classdef(ind + 1, cctx, depth + 1)
            else:
                self.emit(ind + 1, f'z{self.uid()} = 0')
        if ctx['scope'] == 'class':
            return
        self.emit(ind, f'k{n} = {name}()')
        for kind, mname, call, typed, good, bad, unsup in uses:
            recv = name if kind in ('s', 'c') else f'k{n}'
            mk = (lambda v, a=(kind == 'am'): (f'run({recv}.{mname}({call.format(v=v)}))' if a
                                                else f'{recv}.{mname}({call.format(v=v)})'))
            if unsup:
                self.unsupported.append(f'{name}.{mname}')
                self.emit(ind, f"print('r', {mk(bad)})")
                continue
            self.emit(ind, f"print('r', {mk(good)})")
            if self.viol and typed and r.random() < 0.7:
                self.offending(ind, mk(bad), 'call-method')

    def compound(self, ind, ctx, depth):
        r = self.rng
        n = self.uid()
        kinds = ['if', 'for', 'while', 'tryfin', 'tryexc', 'with', 'match']
        if ctx.get('asyncf'):
            kinds += ['asyncwith', 'asyncfor']
        k = r.choice(kinds)
        b = lambda: self.block(ind + 1, ctx, depth + 1, r.randint(1, 2))  # noqa: E731
        if k == 'if':
            self.emit(ind, f"if tick('H{n}', True):")
            b()
            if r.random() < 0.5:
                self.emit(ind, 'else:')
                b()
        elif k == 'for':
            self.emit(ind, f'for i{n} in range(2):')
            b()
        elif k == 'while':
            self.emit(ind, f'w{n} = 0')
            self.emit(ind, f'while w{n} < 2:')
            self.emit(ind + 1, f'w{n} += 1')
            b()
        elif k == 'tryfin':
            self.emit(ind, 'try:')
            b()
            self.emit(ind, 'finally:')
            self.emit(ind + 1, f"calls.append('fin{n}')")
        elif k == 'tryexc':
            self.emit(ind, 'try:')
            b()
            self.emit(ind, 'except KeyError:')
            self.emit(ind + 1, 'pass')
            self.emit(ind, 'else:')
            b()
        elif k == 'with':
            self.emit(ind, f"with CM('{n}'):")
            b()
        elif k == 'asyncwith':
            self.emit(ind, 'async with ACM():')
            b()
        elif k == 'asyncfor':
            self.emit(ind, f'async for j{n} in AIT(2):')
            b()
        else:
            self.emit(ind, f"match tick('H{n}', 1):")
            self.emit(ind + 1, 'case 1:')
            self.block(ind + 2, ctx, depth + 1, r.randint(1, 2))
            self.emit(ind + 1, 'case _:')
            self.block(ind + 2, ctx, depth + 1, 1)

    def hostile(self):
        r = self.rng
        self.emit(0, r.choice(['from celery import Celery', 'from celery import Celery, Task']))
        self.emit(0, "app = Celery('x')")
        self.emit(0, 'from langchain_core.runnables import chain')
        for _ in range(r.randint(1, 2)):
            n = self.uid()
            stack, attr = r.choice([
                (['app.task'], 'run'), (['app.task(bind=True)'], 'run'), (['rec', 'app.task'], 'run'),
                (['app.task', 'rec'], 'run'), (['chain'], 'invoke'), (['chain', 'fac(7)'], 'invoke'),
                (['app.task', 'fac(8)', 'rec'], 'run')])
            for dd in stack:
                self.emit(0, '@' + dd)
            self.emit(0, f'def t{n}(x: int) -> int:')
            self.emit(1, 'return x')
            for v in ('5', "'bad'"):
                self.emit(0, 'try:')
                self.emit(1, f"print('#M hostile', t{n}.{attr}({v}))")
                self.emit(0, 'except Exception as e:')
                self.emit(1, "print('#M hostile', type(e).__name__)")


def gen_runnable(rng: random.Random, conf: dict, family: str) -> dict:
    g = _Run(rng, conf, family)
    r = rng
    if r.random() < 0.5:
        g.emit(0, '"""module docstring"""')
    if r.random() < 0.35:
        g.emit(0, 'from __future__ import annotations')
    for ln in PREAMBLE.splitlines():
        g.emit(0, ln)
    if r.random() < 0.3:
        g.hostile()
    g.block(0, {'scope': 'module', 'self': False}, 0, r.randint(3, 7))
    g.emit(0, "print('calls', calls)")
    return {'source': '\n'.join(g.lines) + '\n', 'family': family, 'conf': conf, 'marks': g.marks,
            'unsupported': g.unsupported}
