"""C05 — one execution of one generated program in a fresh interpreter.

usage: python c05_run.py ROOT MODE CONF_JSON
  ROOT  scratch directory holding the package tree (pk/__init__.py, pk/m.py, stub packages)
  MODE  plain  -> `import pk.m` with no hook (also used for the hand-decorated source)
        hook   -> `beartype_package('pk', conf=BeartypeConf(**CONF))` first
        rehook -> the module is FIRST imported inside `with beartyping(conf=DECOY)` (same AST-shaping options,
                  violations downgraded to warnings), its output discarded and the module dropped from sys.modules;
                  THEN it is imported inside `with beartyping(conf=BeartypeConf(**CONF))` and observed: a second import
                  under another hook must behave like a first import under that hook
Prints one JSON line: stdout lines, exception class and the line numbers of the pk/m.py frames of its
traceback, warnings (category, head of the message), canonicalised final globals, reached / missed marks.
beartype is imported from $PYTHONPATH (the harness puts $VERIF_REPO first).
"""
import builtins
import contextlib
import io
import json
import sys
import traceback
import warnings

SKIP_PREFIXES = ('__', '_c05_', '_bh_')


def canon(v, depth=0):
    if depth > 4:
        return '...'
    if v is None or isinstance(v, (bool, int, float, str, bytes)):
        return repr(v)
    if isinstance(v, (list, tuple)):
        return [type(v).__name__] + [canon(x, depth + 1) for x in v]
    if isinstance(v, dict):
        return ['dict'] + sorted([[canon(k, depth + 1), canon(x, depth + 1)] for k, x in v.items()], key=repr)
    if isinstance(v, type):
        names = sorted(n for n in vars(v) if not n.startswith('__'))
        return ['class', v.__name__, names]
    if callable(v) and hasattr(v, '__name__'):
        return ['callable', v.__name__]
    mod = type(v).__module__
    if mod == 'pk.m' or mod.startswith(('celery', 'fastmcp', 'langchain_core')):
        try:
            d = vars(v)
        except TypeError:
            d = {}
        return ['obj', type(v).__name__, canon({k: x for k, x in d.items() if not k.startswith('__')}, depth + 1)]
    return ['other', type(v).__name__]


def main():
    root, mode, conf_json = sys.argv[1], sys.argv[2], sys.argv[3]
    sys.path.insert(0, root)
    res = {'mode': mode}
    out = io.StringIO()
    mod = None
    ctx = contextlib.nullcontext()
    if mode == 'rehook':
        from beartype import BeartypeConf, BeartypeDecorPlace
        from beartype.claw import beartyping
        kw = json.loads(conf_json)
        for k in ('claw_decor_place_func', 'claw_decor_place_type'):
            if k in kw:
                kw[k] = BeartypeDecorPlace[kw[k]]

        class _C05DecoyWarning(UserWarning):
            pass
        decoy = dict(kw, violation_type=_C05DecoyWarning, is_pep484_tower=not kw.get('is_pep484_tower', False))
        with warnings.catch_warnings():
            warnings.simplefilter('ignore')
            with beartyping(conf=BeartypeConf(**decoy)), contextlib.redirect_stdout(io.StringIO()):
                try:
                    import pk.m  # noqa
                except BaseException:  # noqa
                    pass
        for name in [n for n in sys.modules if n == 'pk' or n.startswith('pk.')]:
            del sys.modules[name]
        for a in ('_c05_reached', '_c05_missed'):
            if hasattr(builtins, a):
                getattr(builtins, a).clear()
        for a in [a for a in vars(builtins) if a.startswith('_c05_') and a not in ('_c05_reached', '_c05_missed')]:
            v = getattr(builtins, a)
            if isinstance(v, (list, dict, set)):
                v.clear()
        ctx = beartyping(conf=BeartypeConf(**kw))
    with warnings.catch_warnings(record=True) as wlist, ctx:
        warnings.simplefilter('always')
        try:
            if mode == 'hook':
                from beartype import BeartypeConf, BeartypeDecorPlace
                from beartype.claw import beartype_package
                kw = json.loads(conf_json)
                for k in ('claw_decor_place_func', 'claw_decor_place_type'):
                    if k in kw:
                        kw[k] = BeartypeDecorPlace[kw[k]]
                beartype_package('pk', conf=BeartypeConf(**kw))
            with contextlib.redirect_stdout(out):
                import pk.m as mod  # noqa
            res['exc'] = None
            res['tb'] = []
        except BaseException as e:  # noqa
            res['exc'] = type(e).__name__
            res['exc_mro'] = [c.__name__ for c in type(e).__mro__]
            res['tb'] = [fr.lineno for fr in traceback.extract_tb(e.__traceback__)
                         if fr.filename.replace('\\', '/').endswith('pk/m.py')]
            res['exc_msg'] = str(e)[:300]
    res['stdout'] = out.getvalue().splitlines()
    res['warnings'] = [[w.category.__name__, str(w.message).split(' in file')[0][:120]] for w in wlist
                       if not issubclass(w.category, (DeprecationWarning, ResourceWarning))]
    res['reached'] = list(getattr(builtins, '_c05_reached', []))
    res['missed'] = list(getattr(builtins, '_c05_missed', []))
    g = {}
    if mod is not None:
        for k, v in vars(mod).items():
            if k.startswith(SKIP_PREFIXES):
                continue
            g[k] = canon(v)
    res['globals'] = g
    sys.stdout.write(json.dumps(res) + '\n')


if __name__ == '__main__':
    main()
