"""C13 — generated classes, the two decoration routes, reification of real objects into the
model's syntax. Importable (in-process runs) and runnable (`python -O -m harness.impl.c13_run`,
JSON on stdin/stdout) for the `python -O` cases.

A *case* is a JSON-able dict:
  {'id': str, 'conf': 'def'|'o0'|'on'|'nocolor'|'warn',
   'externals': [CLS…]          module-level classes defined before the class under test
   'cls': CLS,                   the class under test
   'selfref': bool,              `K.me = K` after the definition
   'standalone': [SA…]}          module-level functions decorated on their own
  CLS = {'name', 'base': name|None, 'dataclass': bool, 'pre': bool, 'doc': str|None, 'members': [M…]}
  M   = {'kind': 'func'|'cm'|'sm', 'name', **FN}
      | {'kind': 'prop', 'name', 'doc', 'get': FN, 'set': FN|None, 'del': FN|None}
      | {'kind': 'class', 'name', 'body': CLS}
      | {'kind': 'alias', 'name', 'target': dotted expression}
      | {'kind': 'const', 'name'} | {'kind': 'field', 'name', 'hint'}
  FN  = {'ann': 'none'|'ign'|'chk'|'bad' ('bad': a parameter annotated `NoReturn`, which @beartype rejects AT DECORATION TIME),
         'hint': key of HINTS, 'ret': None|'ok'|'bad', 'ntc': bool, 'pre': bool, 'doc': str|None}
  SA  = {'wrap': 'func'|'cm'|'sm'|'prop', 'name', **FN}
"""
from __future__ import annotations

import inspect
import json
import sys
import types
from typing import Any

HINTS = {
    'int': ('1', "'z'"),
    'str': ("'s'", '2'),
    'list[int]': ('[1]', "['a']"),
    'Optional[int]': ('None', "'z'"),
    'float': ('1.5', "'z'"),
    'tuple[int, str]': ("(1, 's')", '(1, 2)'),
}
PARAM_V = 'BeartypeCallHintParamViolation'
RETURN_V = 'BeartypeCallHintReturnViolation'
HEADER = ('import dataclasses\nimport functools\nfrom typing import Any, NoReturn, Optional, no_type_check\n'
          'from beartype import beartype\n'
          # an ordinary functools.wraps-style pass-through decorator that amends the docstring and tags the closure:
          # what beartype decorates is the CLOSURE (it is the "original" the wrapper must expose and mirror)
          'def passthru(f):\n'
          '    @functools.wraps(f)\n'
          '    def closure(*args, **kwargs):\n'
          '        return f(*args, **kwargs)\n'
          "    closure.__doc__ = (f.__doc__ or '') + ' (amended)'\n"
          "    closure.tag = 'tagged'\n"
          '    return closure\n')


def make_conf(label: str):
    from beartype import BeartypeConf, BeartypeStrategy
    return {
        'def': lambda: BeartypeConf(),
        'o0': lambda: BeartypeConf(strategy=BeartypeStrategy.O0),
        'on': lambda: BeartypeConf(strategy=BeartypeStrategy.On),
        'nocolor': lambda: BeartypeConf(is_color=False),
        'warn': lambda: BeartypeConf(warning_cls_on_decorator_exception=UserWarning),
    }[label]()


# ---------------------------------------------------------------------------
# rendering
# ---------------------------------------------------------------------------
def render_fn(name: str, fn: dict, first: str | None, param: bool, ind: str, deco: list[str]) -> list[str]:
    """`first` = 'self' / 'cls' / None; `param` = takes the checked parameter x."""
    out = []
    for d in deco:
        out.append(f'{ind}{d}')
    if fn['pre']:
        out.append(f'{ind}@beartype')
    if fn['ntc']:
        out.append(f'{ind}@no_type_check')
    if fn.get('deco'):
        out.append(f'{ind}@passthru')
    ps = [first] if first else []
    if param:
        ps.append({'none': 'x', 'ign': 'x: object', 'chk': f"x: {fn['hint']}", 'bad': 'x: NoReturn'}[fn['ann']])
    elif fn['ann'] == 'bad':
        ps.append('x: NoReturn = None')          # getter / deleter: an optional parameter carries the rejected hint
    ret = ''
    if fn['ann'] in ('chk', 'bad') and fn['ret']:
        ret = ' -> str'
    elif fn['ann'] == 'ign' and fn['ret']:
        ret = ' -> Any'
    out.append(f"{ind}def {name}({', '.join(ps)}){ret}:")
    if fn.get('doc'):
        out.append(f"{ind}    '{fn['doc']}'")
    out.append(f"{ind}    return {'0' if fn['ret'] == 'bad' else repr('r')}")
    return out


def render_cls(c: dict, ind: str = '') -> list[str]:
    out = []
    if c.get('pre'):
        out.append(f'{ind}@beartype')
    if c.get('dataclass'):
        out.append(f'{ind}@dataclasses.dataclass')
    out.append(f"{ind}class {c['name']}{'(' + c['base'] + ')' if c.get('base') else ''}:")
    i2 = ind + '    '
    if c.get('doc'):
        out.append(f"{i2}'{c['doc']}'")
    body = 0
    for m in c['members']:
        k = m['kind']
        body += 1
        if k == 'func':
            out += render_fn(m['name'], m, 'self', True, i2, [])
        elif k == 'cm':
            out += render_fn(m['name'], m, 'cls', True, i2, ['@classmethod'])
        elif k == 'sm':
            out += render_fn(m['name'], m, None, True, i2, ['@staticmethod'])
        elif k == 'prop':
            out += render_fn(m['name'], m['get'], 'self', False, i2, ['@property'])
            if m.get('set'):
                out += render_fn(m['name'], m['set'], 'self', True, i2, [f"@{m['name']}.setter"])
            if m.get('del'):
                out += render_fn(m['name'], m['del'], 'self', False, i2, [f"@{m['name']}.deleter"])
        elif k == 'class':
            out += render_cls(m['body'], i2)
        elif k == 'alias':
            out.append(f"{i2}{m['name']} = {m['target']}")
        elif k == 'const':
            out.append(f"{i2}{m['name']} = 3")
        elif k == 'field':
            out.append(f"{i2}{m['name']}: {m['hint']} = {HINTS[m['hint']][0]}")
    if not body:
        out.append(f'{i2}pass')
    return out


def render_case(case: dict) -> str:
    lines = [HEADER]
    for e in case.get('externals', []):
        lines += render_cls(e) + ['']
    lines += render_cls(case['cls']) + ['']
    if case.get('selfref'):
        lines.append(f"{case['cls']['name']}.me = {case['cls']['name']}")
    for s in case.get('standalone', []):
        lines += render_fn(s['name'], s, None, True, '', []) + ['']
    return '\n'.join(lines) + '\n'


def build(case: dict, route: str) -> dict:
    """exec the generated source as a (registered) module; `cleanup(ns)` unregisters it"""
    name = f"c13gen_{case['id']}_{route}"
    mod = types.ModuleType(name)
    sys.modules[name] = mod
    try:
        exec(compile(render_case(case), f"<c13 {case['id']} {route}>", 'exec', dont_inherit=True), mod.__dict__)
    except BaseException:
        sys.modules.pop(name, None)
        raise
    return mod.__dict__


def cleanup(*nss):
    for ns in nss:
        sys.modules.pop(ns.get('__name__'), None)


# ---------------------------------------------------------------------------
# reification of real objects into the model's syntax
# ---------------------------------------------------------------------------
class Labels:
    """object -> label. Objects met by the first walk get 0,1,2,… (the model's oids);
    objects met later get '@k' tokens (renamed by `normalise`). Keeps the objects alive."""

    def __init__(self):
        self.by_id: dict[int, Any] = {}
        self.keep: list = []
        self.frozen = False

    def of(self, obj):
        i = id(obj)
        if i not in self.by_id:
            self.keep.append(obj)
            self.by_id[i] = f'@{len(self.by_id)}' if self.frozen else len(self.by_id)
        return self.by_id[i]

    def known(self, obj) -> bool:
        return id(obj) in self.by_id

    @property
    def n(self) -> int:
        return sum(1 for v in self.by_id.values() if isinstance(v, int))


def ann_kind(f) -> str:
    from typing import NoReturn
    a = getattr(f, '__annotations__', None)
    if not a:
        return 'none'
    if any(h is NoReturn for k, h in a.items() if k != 'return'):
        return 'bad'                     # `NoReturn` on a parameter: code generation raises at decoration time
    if all(h is object or h is Any for h in a.values()):
        return 'ign'
    return 'chk'


def is_marked(f) -> bool:
    return hasattr(f, '__beartype_wrapper')


def is_cls_marked(cls) -> bool:
    from beartype._util.cache.utilcacheobjattr import get_type_attr_cached_or_sentinel
    return get_type_attr_cached_or_sentinel(cls, 'is_beartyped') is True


def tok(s) -> str:
    return '-' if s is None else str(s).replace('"', '`')


def reify_func(f, lab: Labels, depth: int = 0):
    try:
        sig = str(inspect.signature(f))
    except Exception as e:  # pragma: no cover
        sig = 'ERR:' + type(e).__name__
    w = getattr(f, '__wrapped__', None)
    return [lab.of(f), tok(f.__name__), tok(f.__doc__), sig, ann_kind(f),
            getattr(f, '__no_type_check__', False) is True, is_marked(f),
            reify_func(w, lab, depth + 1) if isinstance(w, types.FunctionType) and depth < 3 else 'none']


def reify_member(v, lab: Labels, module: str, path: tuple, seen: set):
    if isinstance(v, types.FunctionType):
        return ['f', reify_func(v, lab)]
    if isinstance(v, (classmethod, staticmethod)) and isinstance(v.__func__, types.FunctionType):
        return ['c' if isinstance(v, classmethod) else 's', lab.of(v), reify_func(v.__func__, lab)]
    if isinstance(v, property) and isinstance(v.fget, types.FunctionType):
        return ['p', lab.of(v), tok(v.__doc__), reify_func(v.fget, lab),
                reify_func(v.fset, lab) if isinstance(v.fset, types.FunctionType) else 'none',
                reify_func(v.fdel, lab) if isinstance(v.fdel, types.FunctionType) else 'none']
    if isinstance(v, type):
        if id(v) in seen:                 # the same class object a second time in this walk: by-value
            return ['o', lab.of(v)]       # models cannot alias, so it is shown as an opaque attribute
        return reify_class(v, lab, module, path, seen)
    return ['o', lab.of(v)]


def reify_class(cls, lab: Labels, module: str, path: tuple = (), seen: set | None = None):
    seen = set() if seen is None else seen
    seen.add(id(cls))
    qual = cls.__qualname__.split('.')
    if cls.__module__ != module or cls in path:
        return ['k', lab.of(cls), qual, is_cls_marked(cls), [], []]      # foreign class: shallow
    o = lab.of(cls)
    # `__sizeof__` is where beartype hangs its per-class marker cache (added by the first decoration):
    # bookkeeping, not a member; the oracle checks separately that nothing else is ever added
    own = [[name, reify_member(v, lab, module, path + (cls,), seen)] for name, v in list(cls.__dict__.items())
           if name != '__sizeof__']
    inh = []
    names = set(cls.__dict__)
    for b in cls.__mro__[1:]:
        if b is object or b.__module__ != module:
            continue
        for name, v in list(b.__dict__.items()):
            if name in names:
                continue
            names.add(name)
            if isinstance(v, (types.FunctionType, classmethod, staticmethod, property)):
                inh.append([name, reify_member(v, lab, module, path + (cls,), seen)])
    return ['k', o, qual, is_cls_marked(cls), own, inh]


def normalise(tree, n: int, ren: dict):
    """Rename every object label that is not one of the first walk's (`< n`) by order of first
    appearance ('n0', 'n1', …), consistently on both sides (real tokens '@k', model oids >= n)."""
    def lab(t):
        s = str(t)
        if s.isdigit() and int(s) < n:
            return int(s)
        if s not in ren:
            ren[s] = f'n{len(ren)}'
        return ren[s]

    def b(x):
        return x if isinstance(x, bool) else (x == 'true')

    def fn(f):
        if f == 'none':
            return 'none'
        return [lab(f[0]), f[1], f[2], f[3], f[4], b(f[5]), b(f[6]), fn(f[7])]

    def mem(m):
        k = m[0]
        if k == 'f':
            return ['f', fn(m[1])]
        if k in ('c', 's'):
            return [k, lab(m[1]), fn(m[2])]
        if k == 'p':
            return ['p', lab(m[1]), m[2], fn(m[3]), fn(m[4]), fn(m[5])]
        if k == 'o':
            return ['o', lab(m[1])]
        if k == 'k':
            return ['k', lab(m[1]), list(m[2]), b(m[3]), [[e[0], mem(e[1])] for e in m[4]],
                    [[e[0], mem(e[1])] for e in m[5]]]
        raise ValueError(m)
    return mem(tree)


def first_tree_diff(a, b, path='') -> str | None:
    if isinstance(a, list) and isinstance(b, list):
        if len(a) != len(b):
            return f'{path}: length {len(a)} vs {len(b)}'
        for i, (x, y) in enumerate(zip(a, b)):
            tag = x[0] if isinstance(x, list) and x and isinstance(x[0], str) else str(i)
            d = first_tree_diff(x, y, f'{path}/{tag}')
            if d:
                return d
        return None
    return None if a == b else f'{path}: {a!r} vs {b!r}'


# ---------------------------------------------------------------------------
# the two routes
# ---------------------------------------------------------------------------
def get_cls(ns: dict, path: list[str]):
    o = ns[path[0]]
    for p in path[1:]:
        o = o.__dict__[p]
    return o


def route_hand(cls, spec: dict, deco):
    """Decorate, by hand, every FUNCTION the class itself defines and rebuild the descriptors
    around them; recurse into the classes the body DEFINES (known from the generator's spec,
    not from any qualname heuristic). `deco` is only ever applied to function objects."""
    defined = {m['name'] for m in spec['members'] if m['kind'] == 'class'}
    for name, v in list(cls.__dict__.items()):
        if isinstance(v, types.FunctionType):
            new = deco(v)
            if new is not v:
                setattr(cls, name, new)
        elif isinstance(v, classmethod):
            setattr(cls, name, classmethod(deco(v.__func__)))
        elif isinstance(v, staticmethod):
            setattr(cls, name, staticmethod(deco(v.__func__)))
        elif isinstance(v, property):
            setattr(cls, name, property(deco(v.fget), deco(v.fset) if v.fset is not None else None,
                                        deco(v.fdel) if v.fdel is not None else None, v.__doc__))
        elif isinstance(v, type) and name in defined:
            route_hand(v, next(m['body'] for m in spec['members'] if m['kind'] == 'class' and m['name'] == name), deco)


def verdict(thunk) -> str:
    try:
        thunk()
        return 'ok'
    except BaseException as e:  # noqa
        return type(e).__name__


def _ev(hint: str, good: bool):
    return eval(HINTS[hint][0 if good else 1])


def calls_of(cls, spec: dict, prefix: str = '') -> list[tuple[str, str]]:
    """Verdict vector of calls with good and bad arguments through every member of the class
    (instance call, class call, property get/set/delete), recursively for defined classes."""
    out = []
    try:
        inst = cls()
    except BaseException as e:  # noqa
        return [(prefix + '<instantiate>', type(e).__name__)]
    for m in spec['members']:
        k, nm = m['kind'], m.get('name')
        lbl = f'{prefix}{nm}'
        if k in ('func', 'cm', 'sm'):
            g, bd = _ev(m['hint'], True), _ev(m['hint'], False)
            out.append((lbl + '(good)', verdict(lambda: getattr(inst, nm)(g))))
            out.append((lbl + '(bad)', verdict(lambda: getattr(inst, nm)(bd))))
            if k == 'func':
                out.append((lbl + ' via class(bad)', verdict(lambda: getattr(cls, nm)(inst, bd))))
            else:
                out.append((lbl + ' via class(good)', verdict(lambda: getattr(cls, nm)(g))))
                out.append((lbl + ' via class(bad)', verdict(lambda: getattr(cls, nm)(bd))))
        elif k == 'prop':
            out.append((lbl + ' get', verdict(lambda: getattr(inst, nm))))
            if m.get('set'):
                g, bd = _ev(m['set']['hint'], True), _ev(m['set']['hint'], False)
                out.append((lbl + ' set(good)', verdict(lambda: setattr(inst, nm, g))))
                out.append((lbl + ' set(bad)', verdict(lambda: setattr(inst, nm, bd))))
            if m.get('del'):
                out.append((lbl + ' del', verdict(lambda: delattr(inst, nm))))
        elif k == 'class':
            out += calls_of(cls.__dict__[nm], m['body'], f'{lbl}.')
    flds = [m for m in spec['members'] if m['kind'] == 'field']
    if spec.get('dataclass') and flds:
        f0 = flds[0]
        out.append((prefix + '<init>(good)', verdict(lambda: cls(**{f0['name']: _ev(f0['hint'], True)}))))
        out.append((prefix + '<init>(bad)', verdict(lambda: cls(**{f0['name']: _ev(f0['hint'], False)}))))
    return out


# -- expectations computed from the generator's spec only (no model, no beartype) -------------
DECOR_EXC = 'BeartypeDecorHintPep484Exception'      # what `x: NoReturn` raises at decoration time


def fn_checkable(fn: dict) -> bool:
    return fn['ann'] == 'chk' and not fn['ntc']


def fn_fails(fn: dict, conf: str, opt: bool) -> bool:
    """Decorating this function raises (a rejected hint, reached: not -O, not O0, not @no_type_check)."""
    return fn['ann'] == 'bad' and not fn['ntc'] and conf != 'o0' and not opt


def fn_pre_wrapped(fn: dict, opt: bool) -> bool:
    return bool(fn['pre']) and fn_checkable(fn) and not opt


def fn_wrapped_now(fn: dict, conf: str, opt: bool, cls_pre: bool = False) -> bool:
    """A NEW wrapper is expected from this decoration (when the decoration gets as far as this function)."""
    return fn_checkable(fn) and not fn_pre_wrapped(fn, opt) and conf != 'o0' and not opt and not cls_pre


def member_fns(m: dict) -> list[tuple[str, dict]]:
    if m['kind'] in ('func', 'cm', 'sm'):
        return [('', m)]
    if m['kind'] == 'prop':
        return [(a, m[a]) for a in ('get', 'set', 'del') if m.get(a)]
    return []


def plan(spec: dict, conf: str, opt: bool, cls_pre: bool = False, live: bool = True, qual: str = '') -> dict:
    """What ONE decoration of this class is expected to do, from the spec alone:
      new[name][role]  a new wrapper for that function
      sub[name]        the plan of a class the body defines
      marked           the class is marked as decorated afterwards
      complete         the attribute loop ran to its end (the dataclass `__init__` was reached)
      raised           an exception propagates out of the decoration
      warns            subjects of the warnings issued (qualified function names), in order
    Members are decorated in dictionary order; the first function whose decoration raises ends the
    loop (the members after it are not reached) unless the configuration has the warning option:
    then that FUNCTION alone (a plain method, the wrappee of a classmethod / staticmethod, one
    accessor of a property) is left as it was, with one warning naming it; the other accessors of
    the same property are wrapped. `live=False`: not reached at all."""
    cls_pre = (cls_pre or bool(spec.get('pre'))) and not opt
    qual = f"{qual}.{spec['name']}" if qual else spec['name']
    out = {'new': {}, 'sub': {}, 'marked': cls_pre, 'complete': cls_pre, 'raised': False, 'warns': []}
    going = live and not opt and not cls_pre
    for m in spec['members']:
        k, nm = m['kind'], m.get('name')
        if k in ('func', 'cm', 'sm', 'prop'):
            fns = member_fns(m)
            bad = [fn for _r, fn in fns if fn_fails(fn, conf, opt)]
            out['new'][nm] = {r: False for r, _f in fns}
            if not going:
                continue
            if bad and conf != 'warn':
                out['raised'], going = True, False
                continue
            out['warns'] += [f'{qual}.{nm}()' for _fn in bad]
            out['new'][nm] = {r: fn_wrapped_now(fn, conf, opt, cls_pre) for r, fn in fns}
        elif k == 'class':
            sub = plan(m['body'], conf, opt, cls_pre, going, qual)
            out['sub'][nm] = sub
            out['warns'] += sub['warns']
            if sub['raised']:
                out['raised'], going = True, False
    if going:
        out['marked'] = out['complete'] = True
    return out


def hand_expectation(spec: dict, conf: str, opt: bool) -> tuple[bool, int]:
    """(raises, number of warnings) of decorating every function by hand, in dictionary order."""
    n = 0
    for m in spec['members']:
        if m['kind'] == 'class':
            r, k = hand_expectation(m['body'], conf, opt)
            n += k
            if r:
                return True, n
        for _r, fn in member_fns(m):
            if fn_fails(fn, conf, opt):
                if conf != 'warn':
                    return True, n
                n += 1
    return False, n


def expected_call(fn: dict, checked: bool, arg: str | None) -> str:
    if not checked:
        return 'ok'
    if arg == 'bad':
        return PARAM_V
    if fn['ret'] == 'bad':
        return RETURN_V
    return 'ok'


def expected_calls(spec: dict, conf: str, opt: bool, prefix: str = '', cls_pre: bool = False, pl: dict | None = None) -> list[tuple[str, str]]:
    out = []
    if pl is None:
        pl = plan(spec, conf, opt, cls_pre)
    cls_pre = (cls_pre or bool(spec.get('pre'))) and not opt

    def checked(fn, nm, role):
        return fn_pre_wrapped(fn, opt) or pl['new'][nm][role] or (cls_pre and fn_checkable(fn))
    for m in spec['members']:
        k, nm = m['kind'], m.get('name')
        lbl = f'{prefix}{nm}'
        if k in ('func', 'cm', 'sm'):
            ch = checked(m, nm, '')
            out.append((lbl + '(good)', expected_call(m, ch, 'good')))
            out.append((lbl + '(bad)', expected_call(m, ch, 'bad')))
            if k != 'func':
                out.append((lbl + ' via class(good)', expected_call(m, ch, 'good')))
            out.append((lbl + ' via class(bad)', expected_call(m, ch, 'bad')))
        elif k == 'prop':
            out.append((lbl + ' get', expected_call(m['get'], checked(m['get'], nm, 'get'), None)))
            if m.get('set'):
                ch = checked(m['set'], nm, 'set')
                out.append((lbl + ' set(good)', expected_call(m['set'], ch, 'good')))
                out.append((lbl + ' set(bad)', expected_call(m['set'], ch, 'bad')))
            if m.get('del'):
                out.append((lbl + ' del', expected_call(m['del'], checked(m['del'], nm, 'del'), None)))
        elif k == 'class':
            out += expected_calls(m['body'], conf, opt, f'{lbl}.', cls_pre, pl['sub'][nm])
    flds = [m for m in spec['members'] if m['kind'] == 'field']
    if spec.get('dataclass') and flds:
        ch = (conf != 'o0' and not opt and pl['complete']) or cls_pre
        out.append((prefix + '<init>(good)', 'ok'))
        out.append((prefix + '<init>(bad)', PARAM_V if ch else 'ok'))
    return out


# ---------------------------------------------------------------------------
# python -O child: decorate and report (the parent compares with the model)
# ---------------------------------------------------------------------------
def run_optimized(case: dict) -> dict:
    """Under `python -O`: `beartype(conf=…)(obj)` must be the identity on everything."""
    from beartype import beartype
    conf = make_conf(case['conf'])
    ns = build(case, 'o')
    cleanup(ns)
    mod = ns['__name__']
    K = ns[case['cls']['name']]
    lab = Labels()
    t0 = reify_class(K, lab, mod)
    n = lab.n
    lab.frozen = True
    keys0 = list(K.__dict__)
    r = beartype(conf=conf)(K)
    t1 = reify_class(K, lab, mod)
    res = {'id': case['id'], 'optimized_flag': sys.flags.optimize, 't0': t0, 't1': t1, 'n': n,
           'same_class': r is K, 'keys_added': [k for k in K.__dict__ if k not in keys0],
           'calls': calls_of(K, case['cls']), 'standalone': []}
    for s in case.get('standalone', []):
        f = ns[s['name']]
        obj = {'func': lambda: f, 'cm': lambda: classmethod(f), 'sm': lambda: staticmethod(f),
               'prop': lambda: property(f)}[s['wrap']]()
        res['standalone'].append({'name': s['name'], 'wrap': s['wrap'], 'same': beartype(conf=conf)(obj) is obj})
    return res


def main() -> int:
    payload = json.load(sys.stdin)
    out = [run_optimized(c) for c in payload['cases']]
    print(json.dumps({'results': out, 'optimize': sys.flags.optimize}))
    return 0


if __name__ == '__main__':
    sys.exit(main())
