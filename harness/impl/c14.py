"""C14 — executor of histories against the REAL beartype, in forked children of a pristine interpreter.

`python -m harness.impl.c14` reads {"items": [{"ops": [...], "observe": bool}, ...]} on stdin. The process imports
beartype once and asks nothing; every item then runs in its own `os.fork()` child — a copy of an interpreter in
which no query has ever been asked — so items cannot influence each other and a one-op item is the answer of a
fresh interpreter. Output: {"results": [{"answers": [...], "obs": [...], "stats": {...}} | {"error": ...}, ...]}.

Operation DSL (JSON lists; `H` hint expression, `O` object expression, see `Interp.hint` / `Interp.obj`):
  world operations (replayed in the fresh interpreter, they create what a query talks about):
    ["defclass", name, beartyped]      class `name` (re)defined in the synthetic module `c14mod` (with @beartype or not)
    ["deffunc", fname, hintsrc, conf]  `@beartype def fname(x: <hintsrc>) -> int` defined in c14mod (decoration only)
    ["deffunc", fname, hintsrc, conf, hintsrc2]  the same with a second parameter: `def fname(x: <hintsrc>, y: <hintsrc2>) -> int`
                                       (one callable = one forward scope: 'IntList' and 'type[IntList]' share ONE proxy)
    ["defgen", "GList"]                module-level user generic `class GList(list[T])` and the alias `IntList = GList[int]` in
                                       c14mod (late-bound when it follows the deffunc whose string hints name `IntList`);
                                       `["glist", O, ...]` is the object `GList([O, ...])`, `["clsobj", "GList", -1]` the class
    ["defself", cname, hintsrc, conf]  `@beartype class cname` in c14mod with `def m(self, x: <hintsrc>) -> int` and
                                       `def r(self, x) -> <hintsrc>` (hintsrc mentions `Self`: its meaning is the class being
                                       decorated); decoration compiles both checks, so it is also a query ("decorated" | exc)
    ["defscope", sname, kind]          a caller scope with its OWN class `Node`: kind "func" = a function of c14mod whose
                                       local class is `Node`, kind "module" = a module `c14s_<sname>` whose global class is
                                       `Node`; asks nothing of beartype. `["inst", sname, -1]` is an instance of that Node.
  queries (each yields an answer ["ok", value] | ["exc", class name]):
    ["bear", api, H, O, conf]          api: is_bearable | die_if_unbearable | decor | th_is_bearable
    ["sub", H, H] ["thsub", H, H] ["theq", H, H]
    ["call", fname, O]                 call a function decorated earlier by a deffunc
    ["call", fname, O, O2]             the same for a two-parameter deffunc
    ["mcall", cname, "m"|"r", O]       `cname().m(O)` / `cname().r(O)` of a class defined by a defself
    ["sbear", sname, api, H, O, conf]  api: is_bearable | die_if_unbearable | decor, called lexically INSIDE the scope
                                       `sname` (relative forward references of H, e.g. tuple['Node', int], resolve there)
  cache / lifetime operations (history only; a fresh interpreter never sees them):
    ["clear"]  ["gc"]
Nothing of beartype is called by the instrumentation (it only reads the dictionaries), so observing does not
change what is observed.
"""
from __future__ import annotations

import gc
import json
import os
import sys
import time
import types
import weakref

MOD = 'c14mod'
ITEM_TIMEOUT = 300          # seconds per forked item (a history is a few dozen queries)
WORLD_OPS = ('defclass', 'deffunc', 'defself', 'defscope', 'defgen')
QUERY_OPS = ('bear', 'sub', 'thsub', 'theq', 'call', 'mcall', 'sbear')


def _hashable(x) -> bool:
    try:
        hash(x)
        return True
    except TypeError:
        return False


# A caller scope. The generator keeps ONE frame alive: every query sent to it is asked by a call written lexically in
# that frame, so beartype resolves the relative forward references of the hint against this scope (the local class
# `Node` for kind "func"; the module global `Node` for kind "module", where `__c14_local_node` is false).
SCOPE_SRC = '''
{global_node}
def {fn}():
{local_node}
    __a = Node
    while True:
        __k, __h, __o, __cf = yield __a
        try:
            if __k == 'is_bearable':
                __a = ('ok', is_bearable(__o, __h, conf=__cf))
            elif __k == 'die_if_unbearable':
                __a = ('ok', die_if_unbearable(__o, __h, conf=__cf))
            else:
                @beartype(conf=__cf)
                def __g(x: __h) -> int:
                    return 0
                __a = ('ok', __g(__o))
        except Exception as __e:
            __a = ('exc', __e)
'''


class Interp:
    def __init__(self, observe: bool):
        import typing
        import beartype
        import beartype.door
        self.typing = typing
        self.bt = beartype
        self.door = beartype.door
        self.m = types.ModuleType(MOD)
        sys.modules[MOD] = self.m
        self.m.__dict__['beartype'] = beartype.beartype
        self.m.__dict__.update(Self=typing.Self, Optional=typing.Optional, typing=typing, is_bearable=beartype.door.is_bearable,
                               die_if_unbearable=beartype.door.die_if_unbearable)
        self.scopes: dict[str, object] = {}           # sname -> primed generator (the live frame of the scope)
        self.gens: dict[str, list] = {}
        self.observe = observe
        self.nprobe = 0
        # measured facts about this history (non-vacuity)
        self.stats = {'id_reuse': 0, 'id_stale_hit': 0, 'repr_collision': 0, 'checker_hit': 0, 'wrapper_hit': 0,
                      'id_hit': 0, 'clear_by_redefinition': 0, 'ctx_switch': 0, 'generic_alias_recall': 0}
        self.ctx_seen: dict[str, set] = {}            # context-relative hint -> contexts (classes / scopes) it was asked from
        self.ids_seen: dict[int, tuple] = {}          # id(wrapper) -> (weakref, fingerprint)
        self.id_shadow: dict[tuple, tuple] = {}       # (table, ida, idb) -> `==` classes of the two hints at insertion
        self.repr_seen: dict[str, set] = {}           # repr(hint) -> class-generation fingerprints
        self.confs = None
        self.alias_funcs: dict[str, int] = {}         # function whose string hints name the alias `IntList` -> passing calls so far
        self.reps: list = []                          # one representative hint per observed `==` class (observe mode)

    # -- configurations ---------------------------------------------------------------------------
    def conf(self, k):
        if self.confs is None:
            from beartype import BeartypeConf, BeartypeStrategy
            self.confs = [BeartypeConf(), BeartypeConf(is_pep484_tower=True), BeartypeConf(strategy=BeartypeStrategy.On)]
        return self.confs[k or 0]

    # -- expressions --------------------------------------------------------------------------------
    def cls(self, name, g):
        return self.gens[name][g]

    def hint(self, e):
        """Evaluate a hint expression to a NEW hint object (as a user expression would)."""
        t = self.typing
        if isinstance(e, str):
            return {'int': int, 'str': str, 'bool': bool, 'float': float, 'bytes': bytes, 'object': object,
                    'None': None, 'Any': t.Any, 'complex': complex, 'Self': t.Self}[e]
        k = e[0]
        if k == 'cls':
            return self.cls(e[1], e[2])
        if k == 'list':
            return list[self.hint(e[1])]
        if k == 'List':
            return t.List[self.hint(e[1])]
        if k == 'set':
            return set[self.hint(e[1])]
        if k == 'tuple':
            return tuple[tuple(self.hint(x) for x in e[1:])]
        if k == 'tuplevar':
            return tuple[self.hint(e[1]), ...]
        if k == 'dict':
            return dict[self.hint(e[1]), self.hint(e[2])]
        if k == 'union':
            return t.Union[tuple(self.hint(x) for x in e[1:])]
        if k == 'or':
            r = self.hint(e[1])
            for x in e[2:]:
                r = r | self.hint(x)
            return r
        if k == 'opt':
            return t.Optional[self.hint(e[1])]
        if k == 'lit':
            return t.Literal[tuple(self.pyval(x) for x in e[1:])]
        if k == 'annU':                    # unhashable: Annotated[h, []]
            return t.Annotated[self.hint(e[1]), []]
        if k == 'ann':                     # hashable metadata, e.g. 1 / True / 1.0 look-alikes
            return t.Annotated[self.hint(e[1]), self.pyval(e[2])]
        if k == 'type':
            return type[self.hint(e[1])]
        if k == 'ref':                     # PEP 484 string forward reference
            return e[1]
        if k == 'listref':
            return list[e[1]]
        raise ValueError(f'hint expression {e!r}')

    def pyval(self, s):
        import ast
        return ast.literal_eval(s)

    def obj(self, e):
        if isinstance(e, str):
            return self.pyval(e)
        k = e[0]
        if k == 'inst':
            return self.cls(e[1], e[2])()
        if k == 'clsobj':
            return self.cls(e[1], e[2])
        if k == 'glist':                   # instance of the user generic: GList([...]) (an `IntList` iff every item is an int)
            return self.cls('GList', -1)([self.obj(x) for x in e[1:]])
        if k == 'list':
            return [self.obj(x) for x in e[1:]]
        if k == 'tuple':
            return tuple(self.obj(x) for x in e[1:])
        if k == 'set':
            return {self.obj(x) for x in e[1:]}
        if k == 'dict':
            return {self.obj(a): self.obj(b) for a, b in e[1:]}
        raise ValueError(f'object expression {e!r}')

    def eqc(self, h) -> int:
        """Number of the class of `h` under Python's own `==` among the hints of this history."""
        for k, r in enumerate(self.reps):
            try:
                if r is h or r == h:
                    return k
            except Exception:                         # noqa: BLE001
                pass
        self.reps.append(h)
        return len(self.reps) - 1

    def fp(self, e):
        """Fingerprint of a hint expression with class generations made absolute: equal fingerprints <=> the
        same expression over the same class objects."""
        if isinstance(e, str):
            return e
        k = e[0]
        if k == 'cls':
            g = e[2] if e[2] >= 0 else len(self.gens[e[1]]) + e[2]
            return f'{e[1]}@{g}'
        if k == 'lit':
            return '(lit ' + ' '.join(e[1:]) + ')'
        if k in ('ref', 'listref'):
            return f'({k} {e[1]})'
        if k == 'ann':
            return f'(ann {self.fp(e[1])} {e[2]})'
        return '(' + ' '.join([k] + [self.fp(x) for x in e[1:]]) + ')'

    # -- world ----------------------------------------------------------------------------------------
    def defclass(self, name, beartyped):
        ob = None
        if self.observe:
            from beartype._decor._type.decortype import _BEARTYPED_MODULE_TO_TYPE_NAME
            cleared = bool(beartyped) and name in _BEARTYPED_MODULE_TO_TYPE_NAME.get(MOD, ())
            if cleared:
                self.stats['clear_by_redefinition'] += 1
            ob = {'kind': 'defclass', 'cleared': cleared}
        src = ('@beartype\n' if beartyped else '') + f'class {name}:\n    pass\n'
        exec(compile(src, f'<{MOD}>', 'exec'), self.m.__dict__)
        self.gens.setdefault(name, []).append(self.m.__dict__[name])
        return ob

    def deffunc(self, fname, hintsrc, conf, hintsrc2=None):
        ns = self.m.__dict__
        ns['__c14_conf'] = self.conf(conf)
        second = f', y: {hintsrc2}' if hintsrc2 is not None else ''
        src = f'@beartype(conf=__c14_conf)\ndef {fname}(x: {hintsrc}{second}) -> int:\n    return 0\n'
        if 'IntList' in src:
            self.alias_funcs[fname] = 0
        exec(compile(src, f'<{MOD}>', 'exec'), ns)

    def defgen(self, name):
        """module-level user generic and an alias of its subscription; a string hint 'IntList' decorated BEFORE this
        operation is a forward reference whose referent is the subscripted generic `GList[int]`"""
        ns = self.m.__dict__
        ns.setdefault('T', self.typing.TypeVar('T'))
        src = f'class {name}(list[T]):\n    pass\nIntList = {name}[int]\n'
        exec(compile(src, f'<{MOD}>', 'exec'), ns)
        self.gens.setdefault(name, []).append(ns[name])

    def note_ctx(self, hintkey, ctx):
        """an equal context-relative hint asked from a context other than the ones before: what C14 must survive"""
        seen = self.ctx_seen.setdefault(hintkey, set())
        if seen and ctx not in seen:
            self.stats['ctx_switch'] += 1
        seen.add(ctx)

    def defself(self, cname, hintsrc, conf):
        """`@beartype class cname` whose two methods are annotated by `hintsrc` (which mentions `Self`). Observed:
        whether `_HINT_CONF_TO_CHECK_EXPR` holds an expression for that hint before / after the decoration."""
        ns = self.m.__dict__
        ns['__c14_conf'] = self.conf(conf)
        ob = None
        if 'Self' in hintsrc:
            self.note_ctx(f'self:{hintsrc}:{conf}', cname)

        def expr_cached():
            from beartype._check.code.codemain import _HINT_CONF_TO_CHECK_EXPR
            h = eval(hintsrc, ns)
            for k in list(_HINT_CONF_TO_CHECK_EXPR):
                try:
                    if k[1] is ns['__c14_conf'] and (k[0].hint is h or k[0].hint == h):
                        return True
                except Exception:                     # noqa: BLE001
                    pass
            return False
        if self.observe:
            from beartype._decor._type.decortype import _BEARTYPED_MODULE_TO_TYPE_NAME
            cleared = cname in _BEARTYPED_MODULE_TO_TYPE_NAME.get(MOD, ())
            if cleared:
                self.stats['clear_by_redefinition'] += 1
            ob = {'kind': 'defself', 'cleared': cleared, 'expr_before': expr_cached() and not cleared}
        src = (f'@beartype(conf=__c14_conf)\nclass {cname}:\n    def m(self, x: {hintsrc}) -> int:\n        return 0\n'
               f'    def r(self, x) -> {hintsrc}:\n        return x\n')
        try:
            exec(compile(src, f'<{MOD}>', 'exec'), ns)
            a = ['ok', 'decorated']
            self.gens.setdefault(cname, []).append(ns[cname])
        except Exception as ex:                       # noqa: BLE001 - decoration-time failure is an answer
            a = ['exc', type(ex).__name__]
        if self.observe:
            ob['expr_after'] = expr_cached()
            ob['decorated'] = a[0] == 'ok'
        return a, ob

    def defscope(self, sname, kind):
        fn = f'__c14_scope_{sname}'
        if kind == 'module':
            mod = types.ModuleType(f'c14s_{sname}')
            sys.modules[mod.__name__] = mod
            mod.__dict__.update(beartype=self.bt.beartype, is_bearable=self.door.is_bearable,
                                die_if_unbearable=self.door.die_if_unbearable)
            ns, label = mod.__dict__, f'<c14s_{sname}>'
            src = SCOPE_SRC.format(fn=fn, global_node='class Node:\n    pass\n', local_node='    pass')
        else:
            ns, label = self.m.__dict__, f'<{MOD}>'
            src = SCOPE_SRC.format(fn=fn, global_node='', local_node='    class Node:\n        pass')
        exec(compile(src, label, 'exec'), ns)
        g = ns[fn]()
        node = next(g)
        self.scopes[sname] = g
        self.gens.setdefault(sname, []).append(node)

    # -- queries ----------------------------------------------------------------------------------------
    def answer(self, thunk):
        try:
            v = thunk()
        except Exception as ex:                       # noqa: BLE001 - the class is the answer
            return ['exc', type(ex).__name__]
        if v is None or isinstance(v, (bool, int)):
            return ['ok', repr(v)]
        if v is NotImplemented:
            return ['ok', 'NotImplemented']
        return ['ok', type(v).__name__]

    def q_bear(self, api, he, oe, conf):
        cf = self.conf(conf)
        o = self.obj(oe)
        obs = None
        if api == 'decor':
            try:
                h = self.hint(he)
            except Exception as ex:                   # noqa: BLE001
                return ['exc', type(ex).__name__], obs
            ns = self.m.__dict__
            ns['__c14_conf'], ns['__c14_h'] = cf, h
            self.nprobe += 1
            fn = f'_p{self.nprobe}'

            def thunk():
                exec(compile(f'@beartype(conf=__c14_conf)\ndef {fn}(x: __c14_h) -> int:\n    return 0\n', f'<{MOD}>', 'exec'), ns)
                return ns[fn](o)
            a = self.answer(thunk)
            ns.pop(fn, None)
            ns.pop('__c14_h', None)
            return a, obs
        try:
            h = self.hint(he)
        except Exception as ex:                       # noqa: BLE001
            return ['exc', type(ex).__name__], obs
        if api == 'th_is_bearable':
            return self.answer(lambda: self.door.TypeHint(h).is_bearable(o, conf=cf)), obs
        if self.observe:
            obs = self.observe_bear_before(api, h, he, cf)
        if api == 'is_bearable':
            a = self.answer(lambda: self.door.is_bearable(o, h, conf=cf))
        else:
            a = self.answer(lambda: self.door.die_if_unbearable(o, h, conf=cf))
        if self.observe:
            self.observe_bear_after(obs, api, h, cf)
        return a, obs

    def tables(self):
        from beartype.door._func import doorfunc
        from beartype._check.convert._convcoerce import _hint_repr_to_hint
        return {'is_bearable': (doorfunc._HINT_CONF_EXCEPTION_PREFIX_TO_FUNC_TESTER, 'is_bearable() '),
                'die_if_unbearable': (doorfunc._HINT_CONF_EXCEPTION_PREFIX_TO_FUNC_RAISER, 'die_if_unbearable() ')}, \
            _hint_repr_to_hint._key_to_value

    def bt_repr(self, h) -> str:
        """The key under which coerce_hint_any() files `h`: `get_hint_repr(h)`, which is memoised by `==` — a hint
        that == an earlier-seen one (`str | int` after `Union[str, int]`) is filed under the EARLIER one's repr.
        Read from the memo dictionary of get_hint_repr; nothing of beartype is called."""
        try:
            from beartype._util.hint.utilhintget import get_hint_repr
            cells = dict(zip(get_hint_repr.__code__.co_freevars, get_hint_repr.__closure__ or ()))
            if 'args_flat_to_return_value' in cells:
                d = cells['args_flat_to_return_value'].cell_contents
            else:
                d = cells['args_flat_to_return_value_get'].cell_contents.__self__
            v = d.get(h)
        except Exception:                             # noqa: BLE001 - unhashable hint, other memo layout
            v = None
        return v if isinstance(v, str) else repr(h)

    def observe_bear_before(self, api, h, he, cf):
        tabs, reprt = self.tables()
        tab, prefix = tabs[api]
        try:
            hit = (h, cf, prefix) in tab
            hashable = True
        except TypeError:
            hit, hashable = False, False
        r = self.bt_repr(h)
        f = self.fp(he)
        fps = self.repr_seen.setdefault(r, set())
        collide = False
        if f not in fps:
            # same repr, different fingerprint: a collision only if the hints are really distinct (not `==`):
            # decided with Python's own `==` against what the repr table holds
            stored = reprt.get(r)
            if fps and stored is not None:
                try:
                    collide = not (stored == h)
                except Exception:                     # noqa: BLE001
                    collide = True
            fps.add(f)
        if collide:
            self.stats['repr_collision'] += 1
        if hit:
            self.stats['checker_hit'] += 1
        return {'kind': 'bear', 'table': api, 'fp': f, 'eqc': self.eqc(h), 'repr': r, 'hashable': hashable, 'hit': bool(hit),
                'repr_present': r in reprt}

    def observe_bear_after(self, obs, api, h, cf):
        tabs, reprt = self.tables()
        tab, prefix = tabs[api]
        try:
            obs['cached_after'] = (h, cf, prefix) in tab
        except TypeError:
            obs['cached_after'] = False
        stored = reprt.get(obs['repr'])
        if stored is None:
            obs['repr_stored'] = 'absent'
        else:
            try:
                obs['repr_stored'] = 'eq' if (stored is h or stored == h) else 'neq'
            except Exception:                         # noqa: BLE001
                obs['repr_stored'] = 'neq'

    def idtable(self, which):
        TH = self.door.TypeHint
        f = TH.is_subhint if which == 'thsub' else TH.__eq__
        cells = dict(zip(f.__code__.co_freevars, f.__closure__))
        c = cells.get('args_flat_to_return_value')
        return c.cell_contents if c is not None else None

    def wrap(self, h, fp):
        """TypeHint(h) the way a user obtains it, observing wrapper-cache hits and address reuse."""
        from beartype.door._cls.doormeta import _HINT_TO_WRAPPER
        whit = False
        if self.observe:
            try:
                whit = h in _HINT_TO_WRAPPER._key_to_value
            except TypeError:
                whit = False
        w = self.door.TypeHint(h)
        if self.observe:
            if whit:
                self.stats['wrapper_hit'] += 1
            old = self.ids_seen.get(id(w))
            reused = old is not None and old[0]() is not w
            if reused:
                self.stats['id_reuse'] += 1
            self.ids_seen[id(w)] = (weakref.ref(w), fp)
            return w, whit, reused
        return w, whit, False

    def q_th(self, kind, ae, be):
        obs = None
        try:
            a, b = self.hint(ae), self.hint(be)
        except Exception as ex:                       # noqa: BLE001
            return ['exc', type(ex).__name__], obs
        if kind == 'sub':
            return self.answer(lambda: self.door.is_subhint(a, b)), obs
        fa, fb = self.fp(ae), self.fp(be)
        try:
            wa, hita, ra = self.wrap(a, fa)
            wb, hitb, rb = self.wrap(b, fb)
        except Exception as ex:                       # noqa: BLE001
            return ['exc', type(ex).__name__], obs
        if self.observe:
            tab = self.idtable(kind)
            key = (id(wa), id(wb))
            idhit = tab is not None and key in tab
            stale = False
            if idhit:
                self.stats['id_hit'] += 1
                sh = self.id_shadow.get((kind,) + key)
                stale = sh is not None and sh != (self.eqc(a), self.eqc(b))
                if stale:
                    self.stats['id_stale_hit'] += 1
            obs = {'kind': kind, 'fa': fa, 'fb': fb, 'eqa': self.eqc(a), 'eqb': self.eqc(b), 'hasha': _hashable(a),
                   'hashb': _hashable(b), 'ida': id(wa), 'idb': id(wb), 'whit_a': hita, 'whit_b': hitb,
                   'reused_a': ra, 'reused_b': rb, 'idhit': bool(idhit), 'stale': stale}
        if kind == 'thsub':
            ans = self.answer(lambda: wa.is_subhint(wb))
        else:
            ans = self.answer(lambda: wa == wb)
        if self.observe:
            tab = self.idtable(kind)
            if tab is not None and key in tab and not idhit:
                self.id_shadow[(kind,) + key] = (self.eqc(a), self.eqc(b))
            obs['cached_after'] = tab is not None and key in tab
        return ans, obs

    def q_call(self, fname, oe, oe2=None):
        args = [self.obj(oe)] + ([self.obj(oe2)] if oe2 is not None else [])
        a = self.answer(lambda: self.m.__dict__[fname](*args))
        if fname in self.alias_funcs:
            # the same proxy asked again after a passing call that reached its type[...] check: what C14 must survive
            if self.alias_funcs[fname]:
                self.stats['generic_alias_recall'] += 1
            if a[0] == 'ok':
                self.alias_funcs[fname] += 1
        return a, None

    def q_mcall(self, cname, meth, oe):
        o = self.obj(oe)
        return self.answer(lambda: getattr(self.gens[cname][-1](), meth)(o)), None

    def q_sbear(self, sname, api, he, oe, conf):
        """A query asked from inside the scope `sname` (see SCOPE_SRC)."""
        cf = self.conf(conf)
        o = self.obj(oe)
        h = self.hint(he)
        obs = None
        if "'ref'" in repr(he):
            self.note_ctx(f'ref:{self.fp(he)}:{conf}', sname)
        if self.observe and api != 'decor':
            obs = self.observe_bear_before(api, h, he, cf)
            obs['scope'] = sname

        def thunk():
            kind, v = self.scopes[sname].send((api, h, o, cf))
            if kind == 'exc':
                raise v
            return v
        a = self.answer(thunk)
        if obs is not None:
            self.observe_bear_after(obs, api, h, cf)
        return a, obs

    # -- driver ----------------------------------------------------------------------------------------
    def run(self, ops):
        answers, obs = [], []
        for op in ops:
            k = op[0]
            a, ob = None, None
            if k == 'defclass':
                ob = self.defclass(op[1], op[2])
            elif k == 'deffunc':
                try:
                    self.deffunc(op[1], op[2], op[3] if len(op) > 3 else 0, op[4] if len(op) > 4 else None)
                    a = ['ok', 'decorated']
                except Exception as ex:               # noqa: BLE001 - decoration-time failure is part of the world
                    a = ['exc', type(ex).__name__]
            elif k == 'bear':
                a, ob = self.q_bear(op[1], op[2], op[3], op[4] if len(op) > 4 else 0)
            elif k in ('sub', 'thsub', 'theq'):
                a, ob = self.q_th(k, op[1], op[2])
            elif k == 'call':
                a, ob = self.q_call(op[1], op[2], op[3] if len(op) > 3 else None)
            elif k == 'defself':
                a, ob = self.defself(op[1], op[2], op[3] if len(op) > 3 else 0)
            elif k == 'defscope':
                self.defscope(op[1], op[2])
            elif k == 'defgen':
                self.defgen(op[1])
            elif k == 'mcall':
                a, ob = self.q_mcall(op[1], op[2], op[3])
            elif k == 'sbear':
                a, ob = self.q_sbear(op[1], op[2], op[3], op[4], op[5] if len(op) > 5 else 0)
            elif k == 'clear':
                from beartype._util.cache.utilcacheclear import clear_caches
                clear_caches()
                ob = {'kind': 'clear'}
            elif k == 'gc':
                gc.collect()
            else:
                raise ValueError(f'operation {op!r}')
            answers.append(a)
            obs.append(ob)
        return answers, obs


def run_item(item) -> dict:
    it = Interp(bool(item.get('observe')))
    answers, obs = it.run(item['ops'])
    out = {'answers': answers, 'stats': it.stats}
    if item.get('observe'):
        out['obs'] = obs
    return out


def forked(item) -> dict:
    r, w = os.pipe()
    pid = os.fork()
    if pid == 0:
        code = 0
        try:
            os.close(r)
            try:
                res = run_item(item)
            except BaseException as ex:               # noqa: BLE001
                import traceback
                res = {'error': f'{type(ex).__name__}: {ex}', 'trace': traceback.format_exc()[-1500:]}
            with os.fdopen(w, 'w') as f:
                f.write(json.dumps(res))
        except BaseException:                         # noqa: BLE001
            code = 3
        finally:
            os._exit(code)
    os.close(w)
    import select
    import signal
    chunks = []
    deadline = time.time() + ITEM_TIMEOUT
    timed_out = False
    while True:
        left = deadline - time.time()
        if left <= 0:
            timed_out = True
            break
        ready, _, _ = select.select([r], [], [], left)
        if not ready:
            continue
        b = os.read(r, 1 << 16)
        if not b:
            break
        chunks.append(b)
    os.close(r)
    if timed_out:
        try:
            os.kill(pid, signal.SIGKILL)
        except ProcessLookupError:
            pass
    _, status = os.waitpid(pid, 0)
    if timed_out:
        return {'error': f'timeout after {ITEM_TIMEOUT}s'}
    data = b''.join(chunks).decode()
    if not data:
        return {'error': f'child died (status {status})'}
    return json.loads(data)


def prepare(draw: int):
    """The pristine interpreter: every module of the package is imported (beartype imports most of itself
    lazily, on the first query), nothing is asked."""
    import importlib
    import pkgutil
    import beartype
    import beartype.door                   # noqa: F401
    import beartype.roar                   # noqa: F401
    for m in pkgutil.walk_packages(beartype.__path__, 'beartype.'):
        try:
            importlib.import_module(m.name)
        except BaseException:              # noqa: BLE001 - optional third-party integrations
            pass
    # the sampler draw is part of a query's arguments: the same constant draw on both sides of every comparison
    # (bound into generated checkers as a default argument at generation time)
    import beartype._check.code.codemain as codemain
    codemain.getrandbits = lambda nbits: draw
    gc.collect()
    gc.freeze()


def main():
    if '--serve' in sys.argv:
        # one JSON item per input line, one JSON result per output line, until EOF
        prepare(int(os.environ.get('C14_DRAW', '7')))
        sys.stdout.write('ready\n')
        sys.stdout.flush()
        for line in sys.stdin:
            line = line.strip()
            if not line:
                continue
            sys.stdout.write(json.dumps(forked(json.loads(line))) + '\n')
            sys.stdout.flush()
        return
    payload = json.load(sys.stdin)
    prepare(int(payload.get('draw', 7)))
    results = [forked(item) for item in payload['items']]
    sys.stdout.write('\n' + json.dumps({'results': results}) + '\n')
    sys.stdout.flush()


if __name__ == '__main__':
    main()
