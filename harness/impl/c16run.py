"""C16 — ONE interpreter run over a scratch source tree (executed as a script in a fresh
subprocess with `-X pycache_prefix=<scratch>/pyc` and PYTHONDONTWRITEBYTECODE unset; JSON on
stdin, one JSON line on stdout). Stand-alone on purpose: imports nothing of the harness.

  payload = {tree, prefix, hooks: [[package, confspec]...], imports: [module...],
             conc: null | {mods: [A, B], point: 'P1'|'P2'}, watch: [module...]}

Observation points are wrappers around CPython's own loader internals (never around beartype):
  SourceLoader.get_code         entered by BeartypeSourceFileLoader.get_code via super(): the place
                                between "global cache_from_source patched" and "cache file named"
                                (pause point P1) + digest of the code object the import will execute
  FileLoader.get_data           which cache file is probed (its tag); reading the source after a
                                missed probe = pause point P2
  _compile_bytecode             the probed cache file was accepted (reuse)
  SourceFileLoader._cache_bytecode   which cache file is written
"""
import hashlib
import importlib
import json
import marshal
import os
import re
import sys
import threading
import types
import warnings

BEARTYPE_NAMES = ('__beartype__', '__die_if_unbearable_beartype__', '__claw_state_beartype__',
                  'beartype.claw._ast._clawaststar')


def code_digest(co) -> str:
    """Digest of a code object that ignores file name and line numbers."""
    h = hashlib.sha1()

    def feed(c):
        h.update(repr((c.co_name, c.co_argcount, c.co_posonlyargcount, c.co_kwonlyargcount, c.co_flags,
                       c.co_names, c.co_varnames, c.co_freevars, c.co_cellvars)).encode())
        h.update(c.co_code)
        h.update(c.co_exceptiontable)
        for k in c.co_consts:
            if isinstance(k, types.CodeType):
                feed(k)
            else:
                h.update(repr((type(k).__name__, k)).encode())
    feed(co)
    return h.hexdigest()[:16]


def code_names(co) -> list:
    """Which of the names the transformer injects the code object refers to."""
    found = set()

    def walk(c):
        for n in c.co_names:
            if n in BEARTYPE_NAMES:
                found.add(n)
        for k in c.co_consts:
            if isinstance(k, types.CodeType):
                walk(k)
            elif isinstance(k, str) and k in BEARTYPE_NAMES:
                found.add(k)
    walk(co)
    return sorted(found)


PYC_RE = re.compile(r'^(?P<base>.+?)\.cpython-\d+(?:\.opt-(?P<tag>[^.]+))?\.pyc$')


def read_pyc(path):
    data = open(path, 'rb').read()
    flags = int.from_bytes(data[4:8], 'little')
    mtime = int.from_bytes(data[8:12], 'little')
    size = int.from_bytes(data[12:16], 'little')
    co = marshal.loads(data[16:])
    return {'flags': flags, 'mtime': mtime, 'size': size, 'digest': code_digest(co), 'names': code_names(co)}


def listing(prefix, tree):
    """Every cache file of the scratch tree: module, tag, header stamp, digest, injected names."""
    root = os.path.join(prefix, tree.lstrip('/'))
    out = []
    for dp, _, fns in os.walk(root):
        for fn in fns:
            m = PYC_RE.match(fn)
            if not m:
                continue
            rel = os.path.relpath(os.path.join(dp, m.group('base')), root).replace(os.sep, '.')
            rec = {'mod': rel, 'tag': m.group('tag') or ''}
            try:
                rec.update(read_pyc(os.path.join(dp, fn)))
            except Exception as e:  # half-written file etc.
                rec['error'] = type(e).__name__
            out.append(rec)
    out.sort(key=lambda r: (r['mod'], r['tag']))
    return out


def foreign_marked(prefix, tree):
    """Cache files OUTSIDE the scratch tree that carry an `opt-` tag although this interpreter
    runs without -O: modules that were named by the patched cache_from_source."""
    root = os.path.join(prefix, tree.lstrip('/'))
    out = []
    for dp, _, fns in os.walk(prefix):
        if dp.startswith(root):
            continue
        for fn in fns:
            m = PYC_RE.match(fn)
            if m and m.group('tag'):
                rec = {'file': os.path.relpath(os.path.join(dp, fn), prefix), 'tag': m.group('tag')}
                try:
                    rec['names'] = read_pyc(os.path.join(dp, fn))['names']
                except Exception as e:
                    rec['error'] = type(e).__name__
                out.append(rec)
    out.sort(key=lambda r: r['file'])
    return out


def decode_conf(spec):
    from beartype import BeartypeConf, BeartypeDecorPlace
    kw = {}
    for k, v in spec.items():
        if k in ('claw_decor_place_func', 'claw_decor_place_type'):
            kw[k] = BeartypeDecorPlace[v]
        elif k == 'strategy' and isinstance(v, str):
            from beartype import BeartypeStrategy
            kw[k] = BeartypeStrategy[v]
        elif k.startswith('violation_') and isinstance(v, str):
            kw[k] = {'UserWarning': UserWarning, 'RuntimeWarning': RuntimeWarning, 'ValueError': ValueError}[v]
        else:
            kw[k] = v
    return BeartypeConf(**kw)


class Instr:
    """The observation wrappers (installed before beartype is imported)."""

    def __init__(self, watch, tree):
        self.watch = set(watch)
        self.tree = tree
        self.ev = {}                 # module -> {'probed', 'reused', 'wrote', 'digest', 'names'}
        self.pause = None            # (module, point, reached: Event, resume: Event)
        self.lock = threading.Lock()

    def rec(self, name):
        with self.lock:
            return self.ev.setdefault(name, {'probed': None, 'reused': False, 'wrote': None, 'digest': None, 'names': None})

    def tag_of(self, bytecode_path):
        m = PYC_RE.match(os.path.basename(bytecode_path))
        return (m.group('tag') or '') if m else '?'

    def maybe_pause(self, name, point):
        for p in (self.pause, getattr(self, 'pause_b', None)):
            if p and p[0] == name and p[1] == point and not p[2].is_set():
                p[2].set()
                if not p[3].wait(150):
                    self.rec(name)['sched_timeout'] = True

    def install(self):
        be = importlib._bootstrap_external
        ins = self
        orig_cache_from_source = self.orig_cache_from_source = be.cache_from_source
        orig_get_code = be.SourceLoader.get_code
        orig_get_data = be.FileLoader.get_data
        orig_compile_bytecode = be._compile_bytecode
        orig_cache_bytecode = be.SourceFileLoader._cache_bytecode

        def get_code(self, fullname):
            if fullname in ins.watch:
                ins.rec(fullname)['patched_at_entry'] = be.cache_from_source is not orig_cache_from_source
                ins.maybe_pause(fullname, 'P1')
            co = orig_get_code(self, fullname)
            if fullname in ins.watch and co is not None:
                r = ins.rec(fullname)
                r['digest'] = code_digest(co)
                r['names'] = code_names(co)
            return co

        def get_data(self, path):
            name = getattr(self, 'name', None)
            if name in ins.watch:
                if path.endswith('.pyc'):
                    ins.rec(name)['probed'] = ins.tag_of(path)
                elif path == getattr(self, 'path', None):
                    ins.maybe_pause(name, 'P2')
            return orig_get_data(self, path)

        def _compile_bytecode(data, name=None, bytecode_path=None, source_path=None):
            if name in ins.watch:
                ins.rec(name)['reused'] = True
            return orig_compile_bytecode(data, name=name, bytecode_path=bytecode_path, source_path=source_path)

        def _cache_bytecode(self, source_path, bytecode_path, data):
            name = getattr(self, 'name', None)
            if name in ins.watch:
                ins.rec(name)['wrote'] = ins.tag_of(bytecode_path)
            return orig_cache_bytecode(self, source_path, bytecode_path, data)

        be.SourceLoader.get_code = get_code
        be.FileLoader.get_data = get_data
        be._compile_bytecode = _compile_bytecode
        be.SourceFileLoader._cache_bytecode = _cache_bytecode


PROBES = [('call_f_str', lambda m: m.f('s')), ('call_f_int', lambda m: m.f(1)), ('assign', lambda m: m.assign()),
          ('call_g', lambda m: m.g('s')), ('call_K_m', lambda m: m.K().m('s'))]


def outcome(thunk):
    """'ok' | 'warn:<Class>' | 'raise:<Class>' (public beartype class names; never messages)."""
    with warnings.catch_warnings(record=True) as ws:
        warnings.simplefilter('always')
        try:
            thunk()
            res = 'ok'
        except BaseException as e:  # noqa
            res = 'raise:' + type(e).__name__
    kinds = sorted({w.category.__name__ for w in ws})
    if kinds and res == 'ok':
        res = 'warn:' + '+'.join(kinds)
    return res


def import_and_probe(name):
    """Import one module and observe its behaviour."""
    import c16decos
    out = {'mod': name}
    holder = {}

    def imp():
        holder['m'] = importlib.import_module(name)
    out['import'] = outcome(imp)
    if 'm' in holder:
        m = holder['m']
        out['version'] = getattr(m, 'VERSION', None)
        for pn, fn in PROBES:
            out[pn] = outcome(lambda: fn(m))
        # what each pre-existing decorator saw when it ran: was its operand already wrapped by beartype?
        out['decor_saw'] = sorted([d, q, b] for (d, mod, q, b) in c16decos.LOG if mod == name)
    return out


def main():
    p = json.load(sys.stdin)
    tree, prefix = p['tree'], p['prefix']
    assert sys.pycache_prefix == prefix and not sys.dont_write_bytecode, (sys.pycache_prefix, sys.dont_write_bytecode)
    sys.path.insert(0, tree)
    watch = p.get('watch') or p['imports']
    ins = Instr(watch, tree)
    ins.install()
    import beartype  # noqa
    res = {'beartype_file': os.path.dirname(beartype.__file__)}
    if p['hooks']:
        from beartype.claw import beartype_package
        from beartype.claw._package._clawpkgmake import make_conf_hookable
        from beartype._conf.confcommon import BEARTYPE_CONF_DEFAULT
        res['conf_kw'] = []
        for pkg, spec in p['hooks']:
            conf = decode_conf(spec)
            beartype_package(pkg, conf=conf)
            res['conf_kw'].append(make_conf_hookable(conf) != BEARTYPE_CONF_DEFAULT)
    imports = []
    conc = p.get('conc')
    if conc:
        a, b = conc['mods']
        for name in (a, b):                       # parents and shared helpers first: only the two leaf imports interleave
            importlib.import_module(name.rpartition('.')[0])
        import c16decos, langchain_core.runnables  # noqa
        reached, resume, a_done = threading.Event(), threading.Event(), threading.Event()
        ins.pause = (a, conc['point'], reached, resume)
        results = {}

        def run_a():
            try:
                results[a] = import_and_probe(a)
            finally:
                a_done.set()
                reached.set()

        ta = threading.Thread(target=run_a)
        ta.start()
        reached.wait(120)
        paused = not a_done.is_set()
        tb = threading.Thread(target=lambda: results.__setitem__(b, import_and_probe(b)))
        if conc.get('order') == 'overlap':
            # A enters, B enters, A leaves, B leaves (not nested): B is held at its own P1 until A has finished
            reached_b, resume_b = threading.Event(), threading.Event()
            ins.pause_b = (b, 'P1', reached_b, resume_b)
            tb.start()
            reached_b.wait(120)
            res['paused_b'] = tb.is_alive() and reached_b.is_set()
            resume.set()
            ta.join(120)
            resume_b.set()
            tb.join(120)
        else:
            tb.start()
            tb.join(120)
            resume.set()
            ta.join(120)
        res['paused'] = paused
        res['stuck'] = ta.is_alive() or tb.is_alive()
        imports = [results.get(a, {'mod': a, 'import': 'missing'}), results.get(b, {'mod': b, 'import': 'missing'})]
    else:
        for name in p['imports']:
            imports.append(import_and_probe(name))
    for r in imports:
        r['event'] = ins.ev.get(r['mod'], {})
    res['imports'] = imports
    res['patch_left'] = importlib._bootstrap_external.cache_from_source is not ins.orig_cache_from_source
    res['listing'] = listing(prefix, tree)
    if p.get('foreign'):
        res['foreign_marked'] = foreign_marked(prefix, tree)
    sys.stdout.write('\n' + json.dumps(res) + '\n')
    sys.stdout.flush()
    os._exit(0)


if __name__ == '__main__':
    main()
