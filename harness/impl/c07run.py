"""C07 worker (fresh interpreter per generated program): executes every variant of ONE program against the real
beartype (first on sys.path: $VERIF_REPO) and reports, per probe, the verdict vector over the program's object
set under forced sampler draws, plus the vectors of REFERENCE callables decorated with the evaluated hint objects
the Lean model predicts (implementation model and specification), and the Bear-model translation of those hints.

stdin: {'tmp': dir, 'draws': [...], 'helper': src, 'variants': {name: {'src': str, 'expect': {tag: {'impl': term, 'spec': term}}}},
        'objspecs': [...], 'bear': bool}
stdout (last line): {'variants': {name: {'crash': None|{...}, 'probes': {tag: {...}}}}}
"""
import json
import os
import sys
import types
import warnings

DRAW = [0]


class _Never:
    """a class with no instances (stands for an unresolvable name when asking whether a verdict depends on it)"""


class _FakeMeta(type):
    """independent statement of the documented fake-proxy behaviour: accept iff the class of the object, or one
    of its proper non-object bases, has the same NAME"""

    def __instancecheck__(cls, obj):
        return _FakeMeta.__subclasscheck__(cls, type(obj))

    def __subclasscheck__(cls, sub):
        if not isinstance(sub, type):
            return False
        if sub.__name__ == cls.__name__:
            return True
        return any(b.__name__ == cls.__name__ for b in sub.__mro__[1:-1])


class _ViaMeta(type):
    """a non-class referent checked inside an isinstance(): is_bearable without random sampling"""

    def __instancecheck__(cls, obj):
        from beartype import BeartypeConf
        from beartype.door import is_bearable
        return is_bearable(obj, cls.__h__, conf=BeartypeConf(is_random=False))


class Ctx:
    """one variant: its module, the registry id -> object, the recorded probes"""

    def __init__(self, name, objspecs, draws):
        self.name, self.objspecs, self.draws = name, objspecs, draws
        self.reg = {}
        self.kinds = {}
        self.probes = {}
        self.snap = {}
        self._decoys = {}
        self._subs = {}

    # -- injected into the generated module --------------------------------
    def do_reg(self, i, obj, kind='cls'):
        self.reg[i] = obj
        self.kinds[i] = kind

    def do_probe(self, tag, fid, method):
        f = self.reg[fid]
        objs = [self.build(s) for s in self.objspecs]
        self.snap[tag] = {'reg': dict(self.reg)}
        self.probes[tag] = {'actual': [vector(f, objs, d, method) for d in self.draws],
                            'cache': proxy_cache(self.name)}

    # -- objects -----------------------------------------------------------
    def build(self, s, reg=None):
        reg = self.reg if reg is None else reg
        k = s[0]
        if k in ('i', 's', 'f', 'b'):
            return ('ok', s[1])
        if k == 'none':
            return ('ok', None)
        if k in ('list', 'tuple', 'set'):
            xs = [self.build(t, reg) for t in s[1]]
            if any(x[0] != 'ok' for x in xs):
                return ('na', None)
            vs = [x[1] for x in xs]
            return ('ok', {'list': list, 'tuple': tuple, 'set': set}[k](vs))
        if k == 'dict':
            out = {}
            for a, b in s[1]:
                x, y = self.build(a, reg), self.build(b, reg)
                if x[0] != 'ok' or y[0] != 'ok':
                    return ('na', None)
                out[x[1]] = y[1]
            return ('ok', out)
        if k in ('inst', 'decoy', 'subinst'):
            c = reg.get(s[1])
            if c is None:
                return ('na', None)
            if k == 'inst':
                return ('ok', c())
            if k == 'subinst':
                if s[1] not in self._subs:
                    self._subs[s[1]] = type('Sub_' + c.__name__, (c,), {})
                return ('ok', self._subs[s[1]]())
            if s[1] not in self._decoys:                      # an unrelated class of the same name
                d = type(c.__name__, (), {})
                d.__qualname__, d.__module__ = c.__qualname__, c.__module__
                self._decoys[s[1]] = d
            return ('ok', self._decoys[s[1]]())
        raise ValueError(s)


def classify(e):
    from beartype.roar import (BeartypeCallHintForwardRefException, BeartypeCallHintViolation,
                               BeartypeDecorHintForwardRefException)
    if isinstance(e, BeartypeCallHintViolation):
        return 'R'
    if isinstance(e, (BeartypeCallHintForwardRefException, BeartypeDecorHintForwardRefException)):
        return 'F'
    return 'X:' + type(e).__name__


def vector(f, objs, draw, method):
    out = []
    for st, x in objs:
        if st != 'ok':
            out.append('-')
            continue
        DRAW[0] = draw
        try:
            f(None, x) if method else f(x)
            out.append('A')
        except Exception as e:                      # noqa: BLE001 - every outcome is data
            out.append(classify(e))
    return out


def proxy_cache(modname):
    """resolved forward-reference proxies of this module: sorted (dotted name, 'val'|'fake')"""
    from beartype._check.forward.reference._cls import fwdrefmeta
    from beartype._check.forward.reference._cls.fwdreffake import BeartypeForwardRefFakeABC
    out = []
    for px, ref in list(fwdrefmeta._ref_proxy_to_resolved_hint.items()):
        if getattr(px, '__scope_name_beartype__', None) == modname:
            fake = isinstance(ref, type) and issubclass(ref, BeartypeForwardRefFakeABC)
            out.append([px.__hint_name_beartype__, 'fake' if fake else 'val'])
    return sorted(out)


# ---------------------------------------------------------------------------
# reference side: the hint object a model term denotes
# ---------------------------------------------------------------------------
def lit_val(l):
    if l == 'none':
        return None
    if l == 'ellipsis':
        return Ellipsis
    if l[0] == 'b':
        return l[1] == 'true'
    if l[0] == 'i':
        return int(l[1])
    if l[0] == 'str':
        return l[1]
    raise ValueError(l)


class Builder:
    def __init__(self, reg, unres):
        self.reg, self.unres = reg, unres
        self.special = False          # contains via / fake stand-ins (not translatable to the Bear model as is)
        self.has_via = False

    def hint(self, t):
        k = t[0]
        if k == 'obj':
            return self.reg[int(t[1])]
        if k == 'lit':
            return lit_val(t[1])
        if k == 'unres':
            return object if self.unres == 'any' else _Never
        if k == 'fake':
            self.special = True
            return _FakeMeta(t[1].rpartition('.')[2], (), {})
        if k == 'via':
            inner = self.hint(t[1])
            if isinstance(inner, type) and not isinstance(inner, types.GenericAlias):
                return inner
            self.special = self.has_via = True
            return _ViaMeta('Via', (), {'__h__': inner})
        if k == 'sub':
            h = self.hint(t[1])
            args = tuple(self.hint(a) for a in t[2])
            return h[args[0]] if len(args) == 1 else h[args]
        if k == 'bor':
            return self.hint(t[1]) | self.hint(t[2])
        raise ValueError(t)


def has_unres(t):
    k = t[0]
    if k == 'unres':
        return True
    if k == 'via':
        return has_unres(t[1])
    if k == 'sub':
        return has_unres(t[1]) or any(has_unres(a) for a in t[2])
    if k == 'bor':
        return has_unres(t[1]) or has_unres(t[2])
    return False


def ref_vectors(term, reg, objs, draws):
    """verdicts of a callable decorated with the EVALUATED hint the term denotes; an unresolvable leaf is tried as
    accept-everything and as accept-nothing: equal verdicts = the leaf is not needed, else it must raise ('F')"""
    from beartype import beartype
    from beartype._check.convert import _convcoerce
    # the reference must not inherit the hint the decorator cached for the callable under test: `list[<proxy of C>]`
    # and `list[C]` have the same repr(), which is the key of this cache
    _convcoerce._hint_repr_to_hint.clear()
    modes = ['any', 'never'] if has_unres(term) else ['any']
    per_mode, info = [], {}
    for mode in modes:
        b = Builder(reg, mode)
        h = b.hint(term)
        info = {'special': b.special, 'via': b.has_via}

        def ref(x: h):
            return None
        g = beartype(ref)
        per_mode.append([vector(g, objs, d, False) for d in draws])
    if len(per_mode) == 1:
        return per_mode[0], [[False] * len(v) for v in per_mode[0]], info
    vec, free = [], []
    for va, vn in zip(*per_mode):
        vec.append([a if a == n else 'F' for a, n in zip(va, vn)])
        free.append([a == n and a != '-' for a, n in zip(va, vn)])
    return vec, free, info


def bear_case(term, reg, objs):
    """Bear-model translation (hint models for both readings of unresolvable leaves, object models, world)"""
    from harness.bear.model import hint_model, obj_model
    from harness.bear.world import Registry
    r = Registry()
    out = {'hints': []}
    for mode in (['any', 'never'] if has_unres(term) else ['any']):
        b = Builder(reg, mode)
        h = b.hint(term)
        if b.has_via:
            return None
        out['hints'].append(hint_model(h, r))
    out['objs'] = [obj_model(x, r) if st == 'ok' else None for st, x in objs]
    out['world'] = r.world_sexp()
    return out


def run_variant(name, spec, tmp, objspecs, draws, want_bear, special):
    modname = f'c07p_{name}'
    path = os.path.join(tmp, modname + '.py')
    with open(path, 'w') as fh:
        fh.write(spec['src'])
    ctx = Ctx(modname, objspecs, draws)
    ctx.reg.update(special)
    mod = types.ModuleType(modname)
    mod.__file__ = path
    mod.__dict__['__reg__'] = ctx.do_reg
    mod.__dict__['__probe__'] = ctx.do_probe
    sys.modules[modname] = mod
    res = {'crash': None, 'probes': ctx.probes}
    try:
        exec(compile(spec['src'], path, 'exec', dont_inherit=True), mod.__dict__)
    except Exception as e:                          # noqa: BLE001
        import traceback
        tb = traceback.extract_tb(e.__traceback__)
        line = next((fr.lineno for fr in reversed(tb) if fr.filename == path), None)
        res['crash'] = {'exc': type(e).__name__, 'mro': [c.__name__ for c in type(e).__mro__], 'line': line,
                        'msg': str(e)[:300]}
    # reference side
    for tag, pr in ctx.probes.items():
        exp = spec['expect'].get(tag)
        if exp is None:
            continue
        reg = ctx.snap[tag]['reg']
        objs = [ctx.build(s, reg) for s in objspecs]
        for side in ('impl', 'spec'):
            if side == 'spec' and exp['spec'] == exp['impl'] and pr.get('impl') is not None:
                pr['spec'], pr['spec_free'], pr['spec_info'] = pr['impl'], pr['impl_free'], pr['impl_info']
                continue
            try:
                vec, free, info = ref_vectors(exp[side], reg, objs, draws)
                pr[side] = vec
                pr[side + '_free'] = free
                pr[side + '_info'] = info
            except Exception as e:                  # noqa: BLE001
                pr[side] = None
                pr[side + '_err'] = f'{type(e).__name__}: {e}'[:300]
        if want_bear:
            try:
                pr['bear'] = bear_case(exp['impl'], reg, objs)
            except NotImplementedError as e:
                pr['bear'] = None
                pr['bear_skip'] = str(e)[:200]
    return res


def main():
    payload = json.load(sys.stdin)
    warnings.simplefilter('ignore')
    from beartype._check.code import codemain
    codemain.getrandbits = lambda nbits: DRAW[0]
    tmp = payload['tmp']
    sys.path.insert(1, tmp)
    with open(os.path.join(tmp, 'c07_helper.py'), 'w') as fh:
        fh.write(payload['helper'])
    import typing
    import c07_helper
    env = {'typing': typing, 'hm': c07_helper}
    special = {int(i): eval(e, env) for i, e in payload['special'].items()}      # noqa: S307 - fixed table of the harness
    out = {'variants': {}}
    for name, spec in payload['variants'].items():
        out['variants'][name] = run_variant(name, spec, tmp, payload['objspecs'], payload['draws'],
                                            payload.get('bear', False), special)
    import beartype
    out['beartype_file'] = beartype.__file__
    print(json.dumps(out, default=str))


if __name__ == '__main__':
    main()
