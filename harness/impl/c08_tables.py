"""C08 — ONE Python interpreter of transition tables producing REAL generator / coroutine / async generator
functions (code-object flags CO_GENERATOR / CO_COROUTINE / CO_ASYNC_GENERATOR), their @beartype-decorated
versions, and the drivers applying protocol operations to the produced objects.

Table format (JSON-able, identical to what the Lean driver parses):
  table = [row, ...]                row s = reactions while suspended at yield point s (row 0: before the first yield;
                                    only its `send` reaction can ever be used); a state index past the table is a
                                    bare trailing `yield` (DEFAULT_ROW)
  row   = [on_send, on_throw, on_exit, on_stop]   (sent value / ordinary exception / GeneratorExit / StopIteration, StopAsyncIteration)
  slot  = [log, react]              log = ints appended to the finalisation log while reacting (finally / except blocks)
  react = ['y', vexpr, next] | ['r', vexpr] | ['x', eexpr]
  vexpr = 'echo' | 'none' | int     eexpr = 'same' | exc        exc = 'GE' | 'SAI' | ['SI', v] | ['U', cls, v]
  op    = ['send', v] | ['throw', exc] | 'close'                (async: asend / athrow / aclose, awaited to completion)
"""
from __future__ import annotations

import gc
import sys
import types
import warnings
from collections.abc import AsyncGenerator, Coroutine, Generator
from typing import NoReturn

DEFAULT_ROW = [[[], ['r', 'none']], [[], ['x', 'same']], [[], ['x', 'same']], [[], ['x', 'same']]]
class UserBase(BaseException):
    """a throwable that is no Exception (like KeyboardInterrupt, SystemExit, asyncio.CancelledError)"""


USER = [ValueError, KeyError, ZeroDivisionError, UserBase]
KINDS = ('gen', 'coro', 'agen')
# variant -> (objOk, chk) as the Lean driver names them
VARIANTS = {
    'gen': {'ok': ('true', 'any'), 'unchecked': ('true', 'any'), 'badobj': ('false', 'any')},
    'agen': {'ok': ('true', 'any'), 'unchecked': ('true', 'any'), 'badobj': ('false', 'any')},
    'coro': {'int': ('true', 'int'), 'corohint': ('true', 'int'), 'unchecked': ('true', 'any'),
             # `-> NoReturn`: whatever the body returns violates (the wrapper still has to AWAIT the body first)
             'noreturn': ('true', 'never'), 'coronoreturn': ('true', 'never'),
             # `-> Coroutine[..., Coroutine[..., int]]`: the awaited value must itself be a coroutine; table bodies return
             # ints / None only, so every returned value violates (only ONE level of Coroutine[...] is unwrapped)
             'corocoro': ('true', 'never')},
}


class ExpectedViolation(Exception):
    """What the SPECIFICATION object raises where the decorated one must raise BeartypeCallHintReturnViolation."""


class HarnessError(Exception):
    pass


class _BadGen(Generator):        # a return hint no real generator object satisfies
    pass


class _BadAGen(AsyncGenerator):
    pass


def val_of(v):
    return None if v == 'none' else v


def mk_exc(e):
    if e == 'GE':
        return GeneratorExit()
    if e == 'SAI':
        return StopAsyncIteration()
    if e[0] == 'SI':
        return StopIteration() if e[1] == 'none' else StopIteration(e[1])
    if e[0] == 'U':
        return USER[e[1]]() if e[2] == 'none' else USER[e[1]](e[2])
    raise HarnessError(f'bad exception spec {e!r}')


def _react(table, s, exc, log):
    row = table[s] if s < len(table) else DEFAULT_ROW
    if exc is None:
        slot = row[0]
    elif type(exc) is GeneratorExit:
        slot = row[2]
    elif type(exc) in (StopIteration, StopAsyncIteration):
        slot = row[3]
    else:
        slot = row[1]
    log.extend(slot[0])
    return slot[1]


def _value(vexpr, val):
    return val if vexpr == 'echo' else (None if vexpr == 'none' else vexpr)


def _raise(eexpr, exc):
    if eexpr == 'same':
        raise (exc if exc is not None else ValueError())
    raise mk_exc(eexpr)


def _checked(v, mode, exc):
    # specification `checkRet`: a value returned while handling GeneratorExit reaches nobody and is not checked
    if mode == 'chk' and not isinstance(v, int) and type(exc) is not GeneratorExit:
        raise ExpectedViolation()
    if mode == 'never' and type(exc) is not GeneratorExit:
        raise ExpectedViolation()
    return v


# mode: 'plain' = the body as written; 'chk' = returns go through the return check (specification `checkRet`);
#       'viol' = raises the violation when started (specification `violBody`)
def _gen_body(table, log, mode='plain'):
    if mode == 'viol':
        raise ExpectedViolation()
    s, val, exc = 0, None, None
    while True:
        r = _react(table, s, exc, log)
        if r[0] == 'y':
            out, s = _value(r[1], val), r[2]
            try:
                val = yield out
                exc = None
            except BaseException as e:
                val, exc = None, e
        elif r[0] == 'r':
            return _checked(_value(r[1], val), mode, exc)
        else:
            _raise(r[1], exc)


async def _agen_body(table, log, mode='plain'):
    if mode == 'viol':
        raise ExpectedViolation()
    s, val, exc = 0, None, None
    while True:
        r = _react(table, s, exc, log)
        if r[0] == 'y':
            out, s = _value(r[1], val), r[2]
            try:
                val = yield out
                exc = None
            except BaseException as e:
                val, exc = None, e
        elif r[0] == 'r':
            return
        else:
            _raise(r[1], exc)


@types.coroutine
def _suspend(v):
    """the awaitable a table coroutine awaits at each of its suspension points (a generator, like asyncio's
    pure-Python Future.__await__): hands `v` to whoever drives the coroutine, resumes with what is sent in"""
    r = yield v
    return r


async def _coro_body(table, log, mode='plain'):
    if mode == 'viol':
        raise ExpectedViolation()
    s, val, exc = 0, None, None
    while True:
        r = _react(table, s, exc, log)
        if r[0] == 'y':
            out, s = _value(r[1], val), r[2]
            try:
                val = await _suspend(out)
                exc = None
            except BaseException as e:
                val, exc = None, e
        elif r[0] == 'r':
            return _checked(_value(r[1], val), mode, exc)
        else:
            _raise(r[1], exc)


_BODIES = {'gen': _gen_body, 'agen': _agen_body, 'coro': _coro_body}
_ANNOT = {
    ('gen', 'ok'): {'return': Generator[int, None, object]},
    ('gen', 'unchecked'): {'table': list},
    ('gen', 'badobj'): {'return': _BadGen},
    ('agen', 'ok'): {'return': AsyncGenerator[int, None]},
    ('agen', 'unchecked'): {'table': list},
    ('agen', 'badobj'): {'return': _BadAGen},
    ('coro', 'int'): {'return': int},
    ('coro', 'corohint'): {'return': Coroutine[None, None, int]},
    ('coro', 'unchecked'): {'table': list},
    ('coro', 'noreturn'): {'return': NoReturn},
    ('coro', 'coronoreturn'): {'return': Coroutine[None, None, NoReturn]},
    ('coro', 'corocoro'): {'return': Coroutine[None, None, Coroutine[None, None, int]]},
}
_CACHE: dict = {}
_QUIET = False


def plain_func(kind):
    return _BODIES[kind]


def fresh_func(kind, variant):
    """a NEW function object with the same code object as the interpreter of that kind and the variant's annotations"""
    base = _BODIES[kind]
    f = types.FunctionType(base.__code__, base.__globals__, f'{kind}_{variant}', base.__defaults__, base.__closure__)
    f.__annotations__ = dict(_ANNOT[(kind, variant)])
    f.__qualname__ = f.__name__
    f.__module__ = __name__
    return f


def decorated_func(kind, variant):
    key = (kind, variant)
    if key not in _CACHE:
        from beartype import beartype
        und = fresh_func(kind, variant)
        _CACHE[key] = beartype(und)     # (an undecorated result is simply judged by the oracle like any other)
    return _CACHE[key]


def spec_mode(kind, variant):
    if variant == 'badobj':
        return 'viol'
    if kind == 'coro' and variant in ('int', 'corohint'):
        return 'chk'
    if kind == 'coro' and variant in ('noreturn', 'coronoreturn', 'corocoro'):
        return 'never'
    return 'plain'


def canon_exc(e):
    name = type(e).__name__
    if isinstance(e, ExpectedViolation) or name == 'BeartypeCallHintReturnViolation':
        return ['exc', 'BeartypeCallHintReturnViolation']
    if isinstance(e, StopIteration):
        return ['exc', name] if e.value is None else ['exc', name, _atom(e.value)]
    return ['exc', name] + [_atom(a) for a in e.args]


def _atom(v):
    """ints / strings as text, None as 'none', anything else by its class (never a repr with an address)"""
    if v is None:
        return 'none'
    return str(v) if isinstance(v, (int, str)) else f'<{type(v).__name__} object>'


def canon_val(v):
    return ['val', _atom(v)]


def _apply_sync(o, op):
    if op == 'close':
        return o.close()
    if op[0] == 'send':
        return o.send(val_of(op[1]))
    return o.throw(mk_exc(op[1]))


def _apply_async(o, op):
    if op == 'close':
        aw = o.aclose()
    elif op[0] == 'send':
        aw = o.asend(val_of(op[1]))
    else:
        aw = o.athrow(mk_exc(op[1]))
    try:
        r = aw.send(None)
    except StopIteration as e:
        return e.value
    raise HarnessError(f'async generator operation suspended with {r!r}')


def run_ops(kind, func, table, ops, mode=None):
    """Apply `ops` to a fresh object made by `func`; per operation [log delta, canonical result]."""
    log: list = []
    o = func(table, log) if mode is None else func(table, log, mode)
    apply = _apply_async if kind == 'agen' else _apply_sync
    out, seen = [], 0
    for op in ops:
        try:
            res = canon_val(apply(o, op))
        except HarnessError:
            raise
        except BaseException as e:   # the protocol's answer, whatever it is
            res = canon_exc(e)
        out.append([[str(x) for x in log[seen:]], res])
        seen = len(log)
    # finish the object off quietly (finalisers of suspended objects would otherwise run at collection time)
    try:
        if kind == 'agen':
            try:
                o.aclose().send(None)
            except BaseException:
                pass
        else:
            o.close()
    except BaseException:
        pass
    return out


def quiet():
    """no 'coroutine was never awaited' / unraisable-hook noise from objects dropped mid-protocol"""
    warnings.simplefilter('ignore')
    sys.unraisablehook = lambda *a: None
    # finalisation by the CYCLIC collector is timing-dependent and outside the model: keep it off while recording
    # (reference-count finalisation stays on and is modelled); callers collect between batches
    global _QUIET
    if not _QUIET:
        _QUIET = True
        gc.freeze()          # everything imported so far is permanent: the between-batch collections stay cheap
    gc.disable()


def fold(aut, opidx):
    """Trace of an automaton (from the Lean driver) along a sequence of operation indices."""
    st, out = 0, []
    for j in opidx:
        lg, res, nxt = aut[st][j]
        out.append([list(lg), list(res) if isinstance(res, list) else res])
        st = int(nxt)
    return out


def no_yield_on_exit(table) -> bool:
    return all(row[2][1][0] != 'y' for row in table)


def returns_on_exit(table) -> bool:
    return any(row[2][1][0] == 'r' for row in table)


def inspect_kind(f) -> str:
    import inspect
    ks = [n for n, t in (('coroutine', inspect.iscoroutinefunction), ('generator', inspect.isgeneratorfunction),
                         ('asyncgen', inspect.isasyncgenfunction)) if t(f)]
    return '+'.join(ks) or 'plain'


# ---------------------------------------------------------------------------------------------------------
# worker: one (kind, variant, table) against its three automata over all / given operation sequences
# ---------------------------------------------------------------------------------------------------------
def seqs_of(n_ops: int, length: int, extra=None):
    import itertools
    yield from itertools.product(range(n_ops), repeat=length)
    for s in extra or ():
        yield tuple(s)


def check_table(job: dict) -> dict:
    """job: kind, variant, table, ops (alphabet), auts {plain, spec, wrapped}, length, extra (longer sequences).
    Three-way differential + oracle on every sequence; returns counts and the first few differences."""
    quiet()
    kind, variant, table, ops = job['kind'], job['variant'], job['table'], job['ops']
    auts = job['auts']
    plain, dec = plain_func(kind), decorated_func(kind, variant)
    mode = spec_mode(kind, variant)
    in_scope = no_yield_on_exit(table)
    res = {'runs': 0, 'corr': [], 'fail': [], 'outcomes': {}, 'predicted_family': 0, 'oracle_runs': 0, 'ops_applied': 0}
    oc = res['outcomes']
    for seq in seqs_of(len(ops), job['length'], job.get('extra')):
        oseq = [ops[j] for j in seq]
        rp = run_ops(kind, plain, table, oseq, 'plain')
        rd = run_ops(kind, dec, table, oseq)
        rs = rp if mode == 'plain' else run_ops(kind, plain, table, oseq, mode)
        mp, mw = fold(auts['plain'], seq), fold(auts['wrapped'], seq)
        res['runs'] += 1
        res['ops_applied'] += len(seq)
        for _, r in rd:
            k = r[0] if r[0] == 'val' else r[1]
            oc[k] = oc.get(k, 0) + 1
        if rp != mp and len(res['corr']) < 3:
            res['corr'].append({'which': 'model of CPython protocol vs real undecorated object', 'seq': oseq, 'real': rp, 'model': mp})
        if rd != mw and not same_up_to_abandonment(rd, mw) and len(res['corr']) < 3:
            res['corr'].append({'which': 'model of the wrapper vs real @beartype-decorated object', 'seq': oseq, 'real': rd, 'model': mw})
        if mode != 'plain':
            ms = fold(auts['spec'], seq)
            if rs != ms and len(res['corr']) < 3:
                res['corr'].append({'which': 'model of the specification object vs real one', 'seq': oseq, 'real': rs, 'model': ms})
        if in_scope:
            res['oracle_runs'] += 1
            if rd != rs:
                predicted = (rd == mw and rs == fold(auts['spec'], seq))
                res['predicted_family'] += predicted
                if len(res['fail']) < 4:
                    res['fail'].append({'seq': oseq, 'spec': rs, 'decorated': rd, 'predicted_by_model': predicted})
        if res['runs'] % 500 == 0:
            gc.collect()
    gc.collect()
    return res


def same_up_to_abandonment(real, model) -> bool:
    """A wrapper whose inner object ignored GeneratorExit (out of the property's scope) terminates and abandons it
    still suspended; CPython finalises the abandoned object (GeneratorExit once more) when reference counts or the
    cyclic collector say so — not modelled. From that operation on only the results are compared, not the log."""
    cut = next((i for i, (_, r) in enumerate(real) if r[0] == 'exc' and r[1] == 'RuntimeError' and len(r) > 2
                and r[2].endswith('ignored GeneratorExit')), None)
    if cut is None:
        return False
    return real[:cut] == model[:cut] and [r for _, r in real[cut:]] == [r for _, r in model[cut:]]


def first_diff(a, b):
    for i, (x, y) in enumerate(zip(a, b)):
        if x != y:
            return i
    return None


def oracle_once(kind, variant, table, oseq):
    """(specification trace, decorated trace) on the real objects."""
    quiet()
    mode = spec_mode(kind, variant)
    return (run_ops(kind, plain_func(kind), table, oseq, mode), run_ops(kind, decorated_func(kind, variant), table, oseq))
