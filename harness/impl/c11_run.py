"""C11 — child-side execution: one object used as a type hint is pushed through the public entry points of the REAL
beartype and every outcome (escaping exception object, warnings) is recorded as plain data.

A case (a short list of hints) runs in a freshly forked child of a pristine parent (beartype imported, no hint but a
private warm-up class ever processed), so that every record is a deterministic function of the case alone (beartype memoises
hints, reducers and raised exceptions globally).
"""
from __future__ import annotations

import json
import os
import signal
import sys
import typing
import warnings

from . import c11_hints as H

OBJS = {'int': 1, 'str': 'a', 'list_int': [1], 'list_str': ['a'], 'dict': {'a': 1}, 'tuple': (1, 'a'), 'none': None,
        'nested': [[1]], 'float': 2.5, 'plain': H.Plain(), 'empty': [], 'zero': 0,
        # classes as objects (what type[...] hints test with issubclass)
        'cls_int': int, 'cls_bool': bool, 'cls_plain': H.Plain}
PLACEHOLDER = '$%ROOT_PITH_LABEL/~'
APIS = ['decor_param', 'decor_ret', 'is_bearable', 'die_if_unbearable', 'TypeHint', 'is_subhint']


def describe_exc(e: BaseException, n_raised_before: int) -> dict:
    import beartype.roar as roar
    cls = type(e)
    same = any(e is x for x, _ in H.RAISED)
    try:
        msg = str(e)
    except BaseException as e2:  # noqa
        msg = f'<str() raised {type(e2).__name__}>'
    cause = e.__cause__ or e.__context__
    return {
        'status': 'exc', 'cls': cls.__name__, 'module': cls.__module__,
        'roar_public': getattr(roar, cls.__name__, None) is cls and not cls.__name__.startswith('_'),
        'beartype_cls': any(c.__module__.startswith('beartype') for c in cls.__mro__[:1]),
        'mro': [c.__name__ for c in cls.__mro__],
        'user_same': same, 'user_cls': isinstance(e, H.UserBoom),
        'user_sources': [s for _, s in H.RAISED[n_raised_before:]],
        'cause_user': any(cause is x for x, _ in H.RAISED) if cause is not None else False,
        'msg': msg[:160].replace('\n', ' '), 'placeholder': PLACEHOLDER in msg,
    }


def observe(fn) -> dict:
    """run one API call; outcome + warnings"""
    n0 = len(H.RAISED)
    with warnings.catch_warnings(record=True) as ws:
        warnings.simplefilter('always')
        try:
            fn()
            out = {'status': 'ok', 'user_sources': [s for _, s in H.RAISED[n0:]]}
        except BaseException as e:  # noqa: everything that escapes is the observation
            out = describe_exc(e, n0)
    import beartype.roar as roar
    wl = []
    for w in ws:
        c = w.category
        wl.append({'cls': c.__name__, 'module': c.__module__, 'under': issubclass(c, roar.BeartypeWarning),
                   'roar_public': getattr(roar, c.__name__, None) is c and not c.__name__.startswith('_'),
                   'placeholder': PLACEHOLDER in str(w.message), 'msg': str(w.message)[:120].replace('\n', ' ')})
    out['warnings'] = wl
    return out


def descr(h) -> dict:
    """HintDescr of Core/Roar.lean: the primitive tests `die_unless_hint` performs, evaluated independently where possible"""
    from beartype._data.hint.sign.datahintsignset import HINT_SIGNS_SUPPORTED
    from beartype._util.hint.pep.utilpepsign import get_hint_pep_sign_or_none

    def probe_isinstanceable(c):
        try:
            isinstance(None, c)
            return True
        except BaseException:  # noqa
            return False

    def sign(x):
        s = get_hint_pep_sign_or_none(x)
        return s

    try:
        s = sign(h)
        pep = 'none' if s is None else ('sup' if s in HINT_SIGNS_SUPPORTED else 'unsup')
        is_type = isinstance(h, type)
        tup = 'none'
        if isinstance(h, tuple):
            tup = []
            for it in h:
                if isinstance(it, type):
                    tup.append(['t', probe_isinstanceable(it), sign(it) is not None])
                elif isinstance(it, str):
                    tup.append('s')
                else:
                    tup.append('o')
        return {'ok': True, 'd': [pep, h is typing.NoReturn, is_type, probe_isinstanceable(h) if is_type else False, tup],
                'sign': None if s is None else s.name}
    except BaseException as e:  # noqa
        return {'ok': False, 'why': type(e).__name__}


def direct(h) -> dict:
    """the anchored functions themselves"""
    from beartype._util.hint.utilhinttest import die_unless_hint, is_hint
    out = {}
    for tag, fn in (('die', lambda: die_unless_hint(h)), ('die_sv', lambda: die_unless_hint(h, is_ref_str_valid=True)),
                    ('die2', lambda: die_unless_hint(h))):
        out[tag] = observe(fn)
    for tag, kw in (('is_hint', {}), ('is_hint_sv', {'is_ref_str_valid': True})):
        n0 = len(H.RAISED)
        try:
            out[tag] = {'status': 'ok', 'value': bool(is_hint(h, **kw))}
        except BaseException as e:  # noqa
            out[tag] = describe_exc(e, n0)
    return out


_CONFS: dict = {}
CONF_NAMES = ('default', 'tower', 'overrides')


def conf_kwargs(name: str) -> dict:
    """keyword arguments selecting the configuration: {} = none passed (the default configuration)"""
    if name == 'default':
        return {}
    if name not in _CONFS:
        from beartype import BeartypeConf, BeartypeHintOverrides
        _CONFS[name] = {'tower': lambda: BeartypeConf(is_pep484_tower=True),
                        'overrides': lambda: BeartypeConf(hint_overrides=BeartypeHintOverrides({bytes: bytes | bytearray}))}[name]()
    return {'conf': _CONFS[name]}


def run_hint(node, apis, objs, with_descr=True) -> list:
    """all records of one hint"""
    from beartype import beartype
    from beartype.door import TypeHint, die_if_unbearable, is_bearable, is_subhint
    # H.RAISED is NOT cleared between the hints of one child: beartype memoises exceptions (callable_cached), so the user
    # exception escaping now may be the very object user code raised while an earlier hint of this history was processed
    H.SCRIPTS.clear()
    # the configuration rides in `objs` as a pseudo-object name 'conf:<name>' (so that it reaches shrinking and replays)
    conf_name = next((o[5:] for o in objs if o.startswith('conf:')), 'default')
    objs = [o for o in objs if not o.startswith('conf:')]
    ck = conf_kwargs(conf_name)
    try:
        h = H.build(node)
    except H.Unbuildable as e:
        return [{'api': 'build', 'status': 'unbuildable', 'why': str(e)[:120]}]
    recs = []

    def rec(api, entry, obj, fn):
        r = observe(fn)
        r.update(api=api, entry=entry, obj=obj)
        recs.append(r)
        return r
    if with_descr:
        recs.append({'api': 'descr', 'descr': descr(h), 'direct': direct(h)})
    for api in apis:
        if api in ('decor_param', 'decor_ret'):
            box = {}

            def deco():
                def f(x):
                    return x
                f.__annotations__ = {'x' if api == 'decor_param' else 'return': h}
                box['g'] = beartype(**ck)(f) if ck else beartype(f)
            r = rec(api, 'decor', None, deco)
            if r['status'] == 'ok':
                # names that come into existence only AFTER the decoration (genuine forward references), bound to things a
                # forward reference may legitimately or illegitimately denote; removed again after the calls
                import typing as _t
                late = {'C11_LATE_ALIAS': _t.List[int], 'C11_LATE_LITERAL': _t.Literal[1, 2], 'C11_LATE_CLASS': int,
                        'C11_LATE_VALUE': 5}
                globals().update(late)
                try:
                    for o in list(objs) + list(objs[:2]):          # every object, then again (memoised resolution)
                        rec(api.replace('decor', 'call'), 'call', o, lambda: box['g'](OBJS[o]))
                finally:
                    for k in late:
                        globals().pop(k, None)
        elif api == 'is_bearable':
            for o in objs[:2]:
                rec(api, 'is_bearable', o, lambda: is_bearable(OBJS[o], h, **ck))
            rec(api, 'is_bearable', objs[0], lambda: is_bearable(OBJS[objs[0]], h, **ck))      # again: memoised path
        elif api == 'die_if_unbearable':
            for o in objs[:2]:
                rec(api, 'die_if_unbearable', o, lambda: die_if_unbearable(OBJS[o], h, **ck))
        elif api == 'TypeHint':
            box = {}

            def mk():
                box['t'] = TypeHint(h)
            r = rec(api, 'TypeHint', None, mk)
            if r['status'] == 'ok':
                rec('TypeHint.repr', 'TypeHint', None, lambda: repr(box['t']))
                rec('TypeHint.eq', 'TypeHint', None, lambda: box['t'] == TypeHint(int))
                rec('TypeHint.is_bearable', 'is_bearable', objs[0], lambda: box['t'].is_bearable(OBJS[objs[0]], **ck))
        elif api == 'is_subhint':
            rec('is_subhint(h,int)', 'is_subhint', None, lambda: is_subhint(h, int))
            rec('is_subhint(int,h)', 'is_subhint', None, lambda: is_subhint(int, h))
            rec('is_subhint(h,h)', 'is_subhint', None, lambda: is_subhint(h, h))
            rec('is_subhint(h,object)', 'is_subhint', None, lambda: is_subhint(h, object))
    return recs


# ---------------------------------------------------------------------------------------------------------
# user exceptions through the wrapper
# ---------------------------------------------------------------------------------------------------------
def pith_hint(spec):
    """spec = ['plain', NAME] | ['is', script, wrap] | ['hook', script, wrap]; wrap in '', 'list', 'union', 'dict', 'tuple', 'opt'"""
    from typing import Annotated, Optional, Union
    if spec[0] == 'plain':
        return H.REGISTRY[spec[1]]
    if spec[0] == 'is':
        base = Annotated[object, H.make_validator(spec[1])]
    else:
        base = H.make_hook_class(spec[1])
    w = spec[2]
    return {'': base, 'list': list[base], 'union': Union[base, str], 'dict': dict[str, base], 'tuple': tuple[base, ...],
            'opt': Optional[base], 'nested': list[list[base]]}[w]


def pith_obj(spec, good=True):
    """an object that reaches the user code of `spec` (validators see it; for plain hints: good or bad)"""
    if spec[0] == 'plain':
        return {'int': 1, 'str': 'a'}[spec[1]] if good else 2.5
    w = spec[2]
    x = 7
    return {'': x, 'list': [x], 'union': x, 'dict': {'k': x}, 'tuple': (x,), 'opt': x, 'nested': [[x]]}[w]


def run_user(sc) -> dict:
    """sc = {'params': [spec…], 'good': [bool…], 'body': 'return'|'raise', 'ret': spec|None, 'entry': 'wrapper'|'is_bearable'|'die_if_unbearable'}"""
    from beartype import beartype
    from beartype.door import die_if_unbearable, is_bearable
    n_before = len(H.RAISED)
    H.SCRIPTS.clear()
    if sc['entry'] == 'wrapper':
        names = [f'p{i}' for i in range(len(sc['params']))]
        hints = [pith_hint(s) for s in sc['params']]
        ret_hint = pith_hint(sc['ret']) if sc['ret'] is not None else None
        ret_obj = pith_obj(sc['ret']) if sc['ret'] is not None else None
        ns = {'boom': H.boom, 'RET': ret_obj}
        body = "boom('body')" if sc['body'] == 'raise' else 'return RET'
        exec(f'def f({", ".join(names)}):\n    {body}\n', ns)
        f = ns['f']
        f.__annotations__ = dict(zip(names, hints))
        if ret_hint is not None:
            f.__annotations__['return'] = ret_hint
        g = beartype(f)
        args = [pith_obj(s, good) for s, good in zip(sc['params'], sc['good'])]
        out = observe(lambda: g(*args))
    else:
        hint = pith_hint(sc['params'][0])
        obj = pith_obj(sc['params'][0], sc['good'][0])
        box = {}
        if sc['entry'] == 'is_bearable':
            def call():
                box['v'] = is_bearable(obj, hint)
        else:
            def call():
                die_if_unbearable(obj, hint)
        out = observe(call)
        out['value'] = box.get('v')
    out['raised_ids'] = [s for _, s in H.RAISED[n_before:]]
    out['n_raised'] = len(H.RAISED) - n_before
    out['invocations'] = [s.n for s in H.SCRIPTS]
    return out


# ---------------------------------------------------------------------------------------------------------
# isolation
# ---------------------------------------------------------------------------------------------------------
def isolated(fn, arg, timeout=60):
    """run fn(arg) in a forked child; returns its JSON-able result, or {'crash': …}"""
    r, w = os.pipe()
    pid = os.fork()
    if pid == 0:
        code = 0
        try:
            os.close(r)
            signal.alarm(timeout)
            sys.setrecursionlimit(1000)
            try:
                res = fn(arg)
            except BaseException as e:  # noqa: a harness error, reported as such
                import traceback
                res = {'harness_error': f'{type(e).__name__}: {e}', 'tb': traceback.format_exc()[-1500:]}
            data = json.dumps(res, default=str).encode()
            with os.fdopen(w, 'wb') as fh:
                fh.write(data)
        except BaseException:  # noqa
            code = 3
        finally:
            os._exit(code)
    os.close(w)
    chunks = []
    with os.fdopen(r, 'rb') as fh:
        while True:
            b = fh.read(1 << 16)
            if not b:
                break
            chunks.append(b)
    _, status = os.waitpid(pid, 0)
    if os.WIFSIGNALED(status):
        return {'crash': f'signal {os.WTERMSIG(status)}'}
    try:
        return json.loads(b''.join(chunks).decode())
    except Exception:
        return {'crash': f'exit status {os.WEXITSTATUS(status)}, unparsable output'}


def case_job(case):
    """top-level job for worker processes: {'hints': [node…], 'apis': […], 'objs': […]} -> {'recs': [[…] per hint]}"""
    def body(c):
        return {'recs': [run_hint(n, c['apis'], c['objs'], c.get('descr', True)) for n in c['hints']]}
    return isolated(body, case, timeout=case.get('timeout', 60))


def user_job(sc):
    return isolated(run_user, sc, timeout=30)
