import random, typing as t, collections.abc as c, collections, warnings
import beartype._check.code.codemain as cm
class FB:
    val=0
    def __call__(s,n): return s.val
fb=FB(); cm.getrandbits=fb
from beartype import BeartypeConf, BeartypeStrategy, beartype
from beartype.door import is_bearable, die_if_unbearable
from beartype.roar import BeartypeDoorHintViolation, BeartypeException
from beartype.vale import Is, IsEqual, IsInstance, IsAttr
rng=random.Random(7)
leaves=[int,str,float,bool,type(None),bytes,object,t.Any]
def gh(d):
    if d==0 or rng.random()<0.25: return rng.choice(leaves)
    k=rng.randrange(16)
    if k==0: return list[gh(d-1)]
    if k==1: return tuple[gh(d-1), ...]
    if k==2: return tuple[tuple(gh(d-1) for _ in range(rng.randrange(0,3)))] if rng.random()<.8 else tuple[()]
    if k==3: return dict[gh(d-1), gh(d-1)]
    if k==4: return t.Union[tuple(gh(d-1) for _ in range(rng.randrange(2,4)))]
    if k==5: return t.Optional[gh(d-1)]
    if k==6: return set[gh(d-1)]
    if k==7: return c.Iterable[gh(d-1)]
    if k==8: return c.Sequence[gh(d-1)]
    if k==9: return c.Mapping[gh(d-1), gh(d-1)]
    if k==10: return t.Literal[rng.choice([1,True,'a',None,b'x',0])]
    if k==11: return type[rng.choice([int,str,object,bool])]
    if k==12: return t.Annotated[gh(d-1), IsInstance[rng.choice([int,str,list])]]
    if k==13: return c.Collection[gh(d-1)]
    if k==14: return frozenset[gh(d-1)]
    if k==15: return collections.deque[gh(d-1)]
def go(d):
    if d==0 or rng.random()<0.3: return rng.choice([0,1,True,'a','',None,2.5,b'x',int,str])
    k=rng.randrange(7); n=rng.randrange(0,4)
    if k==0: return [go(d-1) for _ in range(n)]
    if k==1: return tuple(go(d-1) for _ in range(n))
    if k==2:
        try: return {go(0): go(d-1) for _ in range(n)}
        except TypeError: return {}
    if k==3:
        try: return {go(0) for _ in range(n)}
        except TypeError: return set()
    if k==4: return iter([go(d-1)])
    if k==5: return collections.deque(go(d-1) for _ in range(n))
    if k==6: return frozenset(go(0) for _ in range(n))
bad=[]; n=0; rej=0
confs=[BeartypeConf(), BeartypeConf(strategy=BeartypeStrategy.On), BeartypeConf(is_random=False)]
warnings.simplefilter('ignore')
for i in range(30000):
    try: h=gh(3)
    except Exception as e: continue
    conf=rng.choice(confs)
    for j in range(3):
        x=go(3); fb.val=rng.choice([0,1,2,3,2**32-1])
        try: a=is_bearable(x,h,conf=conf)
        except Exception as e: bad.append(('is_bearable',h,x,type(e).__name__,str(e)[:80])); break
        try: die_if_unbearable(x,h,conf=conf); b=True
        except BeartypeDoorHintViolation: b=False
        except Exception as e: bad.append(('die',h,x,type(e).__name__,str(e)[:100])); break
        n+=1; rej+= (not a)
        if a!=b: bad.append(('disagree',h,x,a,b,conf,fb.val))
print(n,'cases',rej,'rejected',len(bad),'bad')
seen=set()
for b in bad:
    key=(b[0],b[3] if b[0]!='disagree' else '')
    if key in seen and len(seen)>12: continue
    seen.add(key); print(b)
    if len(seen)>14: break
