from beartype import BeartypeConf
from beartype.roar import BeartypeConfParamException
# fresh: invalid first
try:
    c = BeartypeConf(is_debug=1); print('fresh is_debug=1 ->', c, c.is_debug, type(c.is_debug))
except Exception as e: print('fresh is_debug=1 raises', type(e).__name__)
a = BeartypeConf(is_debug=True)
try:
    c = BeartypeConf(is_debug=1); print('after True: is_debug=1 ->', c is a, c.is_debug)
except Exception as e: print('after True: is_debug=1 raises', type(e).__name__)
try:
    c = BeartypeConf(is_debug=1.0); print('after True: is_debug=1.0 ->', c is a)
except Exception as e: print('after: 1.0 raises', type(e).__name__)
b = BeartypeConf()
try:
    c = BeartypeConf(is_debug=0); print('after default: is_debug=0 ->', c is b)
except Exception as e: print('after default: 0 raises', type(e).__name__)
