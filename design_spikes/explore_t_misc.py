import beartype._check.code.codemain as cm
draws = []
class FakeBits:
    def __init__(s): s.val = 0
    def __call__(s, n): draws.append(n); return s.val
fb = FakeBits()
cm.getrandbits = fb
from beartype import beartype, BeartypeConf, BeartypeStrategy
from beartype.door import is_bearable, die_if_unbearable
from beartype._check.convert.convmain import sanify_hint_root_statement
from beartype._check.cls.call.calldataexternal import BEARTYPE_CALL_EXTERNAL_META
def code(h, conf):
    hs = sanify_hint_root_statement(call_curr=BEARTYPE_CALL_EXTERNAL_META, hint=h, conf=conf, exception_prefix='x')
    return cm.make_check_expr(BEARTYPE_CALL_EXTERNAL_META, conf, hs)[0]
h = list[dict[str, tuple[int, ...]]]
c1 = code(h, BeartypeConf()); c2 = code(h, BeartypeConf(strategy=BeartypeStrategy.On)); c3 = code(h, BeartypeConf(is_random=False))
print('O1==On code:', c1 == c2, ' random==nonrandom:', c1 == c3)
x = [1, 2, 'bad', 4]
res = []
for v in range(6):
    fb.val = v; res.append(is_bearable(x, list[int]))
print('tester draws->', res)
@beartype
def f(a: list[int]) -> list[int]: return a
out=[]
for v in range(6):
    fb.val = v
    try: f(x); out.append(True)
    except Exception as e: out.append(type(e).__name__)
print('wrapper draws->', out, 'calls', len(draws))
# culprits
fb.val = 2
try: die_if_unbearable(x, list[int])
except Exception as e: print(type(e).__name__, e.culprits)
