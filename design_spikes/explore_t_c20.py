import warnings
from beartype.door import is_bearable, infer_hint
from collections import Counter, deque, ChainMap, OrderedDict, defaultdict
import collections.abc as cabc
def rt(o, name=None):
    try:
        with warnings.catch_warnings(record=True) as w:
            warnings.simplefilter('always')
            h = infer_hint(o)
            r = is_bearable(o, h)
        print(name or repr(o)[:40], '->', repr(h)[:100], r, [x.category.__name__ for x in w])
    except Exception as e:
        print(name or repr(o)[:40], 'EXC', type(e).__name__, str(e)[:150])
rt(Counter({'a': 'x'})); rt(Counter('abc'))
l = []; l.append(l); rt(l, 'recursive list')
rt([1,'a',None, [2.0]]); rt({1:'a', 'b':2}); rt(()); rt((1,)*11); rt((1,'a')); rt({}.keys()); rt({1:2}.values()); rt({1:2}.items()); rt(range(3)); rt(deque([1])); rt(frozenset({1,'a'}))
rt(ChainMap({1:2})); rt(defaultdict(list, {1:[2]})); rt(OrderedDict(a=1)); rt(b'abc'); rt(bytearray(b'a')); rt(memoryview(b'ab')); rt(1.5); rt(None); rt(len); rt(lambda x: x); rt(int); rt(iter([1])); rt((x for x in [1]))
class MySeq(cabc.Sequence):
    def __init__(s, d): s.d=d
    def __getitem__(s,i): return s.d[i]
    def __len__(s): return len(s.d)
rt(MySeq([1,'a'])); 
class MyMap(cabc.Mapping):
    def __init__(s,d): s.d=d
    def __getitem__(s,k): return s.d[k]
    def __iter__(s): return iter(s.d)
    def __len__(s): return len(s.d)
rt(MyMap({1:'a'}))
class MySet(cabc.Set):
    def __init__(s,d): s.d=set(d)
    def __contains__(s,x): return x in s.d
    def __iter__(s): return iter(s.d)
    def __len__(s): return len(s.d)
rt(MySet([1,2]))
rt([[1],['a']]); rt([{1:[2]},{'a':(3,)}]); rt({(1,2):3}); rt([(1,'a'),(2,)])
rt([True, 1]); rt({1: True, True: 1}); rt([1.0, 1])
