import sys, ast, io, tokenize
for p in sys.argv[1:]:
    src=open(p).read()
    toks=[t for t in tokenize.generate_tokens(io.StringIO(src).readline) if t.type!=tokenize.COMMENT]
    code=tokenize.untokenize(toks)
    tree=ast.parse(code)
    for n in ast.walk(tree):
        b=getattr(n,'body',None)
        if isinstance(b,list):
            nb=[]
            for i,s in enumerate(b):
                if isinstance(s,ast.Expr) and isinstance(s.value,ast.Constant) and isinstance(s.value.value,str):
                    continue
                if isinstance(s,ast.Assert): continue
                nb.append(s)
            if not nb: nb=[ast.Pass()]
            n.body=nb
    print('#####',p)
    print(ast.unparse(tree))
