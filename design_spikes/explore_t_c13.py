from beartype import beartype, BeartypeConf
from beartype.roar import BeartypeCallHintParamViolation
@beartype
class A:
    def f(self, x: int): return x
class B(A):
    def g(self, x: int): return x
B2 = beartype(B)
print(B2 is B)
try: B().g('x'); print('subclass method UNCHECKED')
except BeartypeCallHintParamViolation: print('subclass method checked')
# idempotent
f = beartype(A.f); print(f is A.f)
# different conf second time
@beartype(conf=BeartypeConf(strategy=__import__('beartype').BeartypeStrategy.O0))
def h(x: int): return x
print(h.__name__, hasattr(h,'__wrapped__'))
class C:
    @classmethod
    def cm(cls, x: int): return x
    @staticmethod
    def sm(x: int): return x
    @property
    def p(self) -> int: return 'x'
    class N:
        def m(self, x: int): return x
C = beartype(C)
print(type(C.__dict__['cm']), type(C.__dict__['sm']), type(C.__dict__['p']), C.__dict__['cm'].__wrapped__, C.__dict__['p'].fget.__wrapped__)
