-- DESIGN-PHASE SPIKE (throw-away, not part of the framework): nested inductive objects/hints,
-- full-depth `sat` implies the sampled check `chk` for every draw.
inductive Obj where
  | mk (cls : Nat) (atom : Int) (items : List Obj) : Obj

inductive Hint where
  | cls (c : Nat) : Hint
  | seq (c : Nat) (item : Hint) : Hint
  | union (a b : Hint) : Hint
  | tupleFixed (hs : List Hint) : Hint

def Obj.cls : Obj → Nat | .mk c _ _ => c
def Obj.items : Obj → List Obj | .mk _ _ xs => xs

variable (isinst : Nat → Nat → Bool)

mutual
def sat : Hint → Obj → Bool
  | .cls c, x => isinst x.cls c
  | .seq c h, x => isinst x.cls c && satAll h x.items
  | .union a b, x => sat a x || sat b x
  | .tupleFixed hs, x => isinst x.cls 0 && satZip hs x.items
def satAll : Hint → List Obj → Bool
  | _, [] => true
  | h, x :: xs => sat h x && satAll h xs
def satZip : List Hint → List Obj → Bool
  | [], [] => true
  | h :: hs, x :: xs => sat h x && satZip hs xs
  | _, _ => false
end

mutual
def chk (r : Nat) : Hint → Obj → Bool
  | .cls c, x => isinst x.cls c
  | .seq c h, x => isinst x.cls c &&
      (match x.items[r % x.items.length]? with
       | none => true
       | some y => chk r h y)
  | .union a b, x => chk r a x || chk r b x
  | .tupleFixed hs, x => isinst x.cls 0 && chkZip r hs x.items
def chkZip (r : Nat) : List Hint → List Obj → Bool
  | [], [] => true
  | h :: hs, x :: xs => chk r h x && chkZip r hs xs
  | _, _ => false
end

theorem satAll_mem {h : Hint} {xs : List Obj} (hs : satAll isinst h xs = true) {y : Obj} (hy : y ∈ xs) :
    sat isinst h y = true := by
  induction xs with
  | nil => cases hy
  | cons x xs ih =>
    simp [satAll] at hs
    cases hy with
    | head => exact hs.1
    | tail _ h' => exact ih hs.2 h'

mutual
theorem no_false_alarm (r : Nat) : ∀ (h : Hint) (x : Obj), sat isinst h x = true → chk isinst r h x = true
  | .cls c, x, hs => by simpa [sat, chk] using hs
  | .seq c h, x, hs => by
      simp [sat] at hs
      simp [chk, hs.1]
      split
      · rfl
      · rename_i y hy
        have hm : y ∈ x.items := List.mem_of_getElem? hy
        exact no_false_alarm r h y (satAll_mem isinst hs.2 hm)
  | .union a b, x, hs => by
      simp [sat] at hs
      simp [chk]
      cases hs with
      | inl h1 => exact Or.inl (no_false_alarm r a x h1)
      | inr h2 => exact Or.inr (no_false_alarm r b x h2)
  | .tupleFixed hs', x, hs => by
      simp [sat] at hs
      simp [chk, hs.1]
      exact no_false_alarm_zip r hs' x.items hs.2
theorem no_false_alarm_zip (r : Nat) : ∀ (hs : List Hint) (xs : List Obj), satZip isinst hs xs = true → chkZip isinst r hs xs = true
  | [], [], _ => by simp [chkZip]
  | h :: hs, x :: xs, hz => by
      simp [satZip] at hz
      simp [chkZip]
      exact ⟨no_false_alarm r h x hz.1, no_false_alarm_zip r hs xs hz.2⟩
  | [], _ :: _, hz => by simp [satZip] at hz
  | _ :: _, [], hz => by simp [satZip] at hz
end
#print axioms no_false_alarm
