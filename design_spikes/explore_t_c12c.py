from beartype.door import is_bearable
from beartype.vale import IsAttr, IsEqual, Is, IsInstance
from typing import Annotated, Any
from beartype import BeartypeConf
h = list[Annotated[object, IsEqual['a'], IsInstance[str]]]
print(is_bearable(['a'], h), is_bearable(['b'], h))
is_bearable(['a'], h, conf=BeartypeConf(is_debug=True))
