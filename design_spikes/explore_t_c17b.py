from beartype import BeartypeConf
from beartype.roar import BeartypeConfParamException
for kw in [dict(hint_overrides={int: str}), dict(claw_skip_package_names=['a']), dict(is_debug=[1]), dict(strategy='O1'), dict(violation_type=int), dict(is_color=2), dict(hint_overrides=3)]:
    try:
        c = BeartypeConf(**kw); print(kw, '->', c)
    except Exception as e: print(kw, 'raises', type(e).__name__, str(e)[:100])
c1 = BeartypeConf(is_pep484_tower=True); print(c1.kwargs['hint_overrides'], c1.hint_overrides, BeartypeConf(**c1.kwargs) is c1)
