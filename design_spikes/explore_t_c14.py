from beartype.door import is_bearable, TypeHint, is_subhint
from beartype import beartype
import gc
def mk():
    class Foo: pass
    return Foo
A = mk(); print(is_bearable([A()], list[A]))
B = mk(); print('redefined same-name class, list[B]:', is_bearable([B()], list[B]), is_bearable([A()], list[B]))
# id reuse for unhashable hints in is_subhint
from typing import Annotated
res=[]
for i in range(2000):
    h1 = Annotated[int, []] if i%2==0 else Annotated[str, []]
    th = TypeHint(h1)
    r = th.is_subhint(TypeHint(int))
    exp = (i%2==0)
    if r != exp: res.append((i, r, exp)); 
    del th, h1
print('is_subhint id-reuse mismatches:', len(res), res[:3])
