import sys, threading, random, contextlib
REPO='/repo/beartype/'
class Sched:
    def __init__(s, seed): 
        s.rng = random.Random(seed); s.threads={}; s.turn=threading.Semaphore(0); s.lock=threading.Lock(); s.done=set(); s.steps=0
    def spawn(s, name, fn):
        sem = threading.Semaphore(0)
        res = {}
        def tracer(frame, event, arg):
            if frame.f_code.co_filename.startswith(REPO):
                if event in ('line','call'):
                    s.yield_(name)
                return tracer
            return None
        def run():
            sem.acquire()               # wait for first grant
            CUR.name = name
            sys.settrace(tracer)
            try: res['v'] = fn()
            except BaseException as e: res['e'] = e
            finally:
                sys.settrace(None)
                s.done.add(name); s.turn.release()
        t = threading.Thread(target=run); s.threads[name]=(t,sem,res); t.start()
    def yield_(s, name):
        t,sem,res = s.threads[name]
        s.turn.release()   # hand control back to scheduler
        sem.acquire()      # wait to be granted again
    def run(s):
        alive = list(s.threads)
        while True:
            alive = [n for n in s.threads if n not in s.done]
            if not alive: break
            n = s.rng.choice(alive)
            s.threads[n][1].release(); s.turn.acquire(); s.steps+=1
        for t,_,_ in s.threads.values(): t.join()
        return {n: r for n,(_,_,r) in s.threads.items()}
import beartype._conf.confmain as cm
CUR = threading.local()
class CoopLock:
    def __init__(s, sched): s.l = threading.Lock(); s.sched = sched
    def __enter__(s):
        while not s.l.acquire(blocking=False):
            s.sched.yield_(CUR.name)
        return s
    def __exit__(s, *a): s.l.release()
from beartype import BeartypeConf
def trial(seed, nolock):
    cm._beartype_conf_args_to_conf.pop  # exists
    s = Sched(seed)
    cm._beartype_conf_lock = contextlib.nullcontext() if nolock else CoopLock(s)
    kw = dict(is_debug=True, is_color=False, violation_verbosity=cm.BeartypeViolationVerbosity.MINIMAL if hasattr(cm,'BeartypeViolationVerbosity') else None)
    kw = dict(is_debug=True, is_color=(seed%2==0), is_pep557_fields=(seed%3==0), claw_skip_package_names=('s%d%s'%(seed, 'n' if nolock else 'l'),))
    for i in range(2): s.spawn('t%d'%i, lambda: BeartypeConf(**kw))
    r = s.run()
    a, b = r['t0'].get('v'), r['t1'].get('v')
    return a is b, s.steps, [x.get('e') for x in r.values()]
import time; t0=time.time()
for nolock in (False, True):
    bad = 0; tot=0
    for seed in range(60):
        same, steps, errs = trial(seed, nolock); tot+=steps
        if not same or any(errs): bad += 1
    print('nolock' if nolock else 'locked', 'violations', bad, '/60 steps', tot, 'time %.1f'%(time.time()-t0))
