import random, typing as t, collections.abc as c, collections, warnings, itertools
from beartype.door import is_subhint, is_bearable, TypeHint
from beartype.roar import BeartypeException
warnings.simplefilter('ignore')
class U0: pass
class U1(U0): pass
H = [int, bool, str, float, U0, U1, type(None), object,
     list[int], list[bool], list[object], list, c.Sequence[int], c.Sequence[bool], c.Iterable[int], c.Collection[int],
     tuple[int, ...], tuple[bool, ...], tuple[int, int], tuple[bool, int], tuple[int], tuple[()], tuple,
     dict[str, int], dict[str, bool], c.Mapping[str, int], dict,
     t.Union[int, str], t.Union[bool, str], t.Optional[int], t.Union[int, str, None], t.Union[list[int], str],
     t.Literal[1], t.Literal[True], t.Literal[1, 2], t.Literal['a'], t.Literal[1, 'a'],
     type[int], type[bool], type[U0], type[U1], type,
     set[int], frozenset[int], c.Set[int],
     t.Annotated[int, 'x'], ]
res={}
errs=[]
for a,b in itertools.product(H,H):
    try: res[(a,b)] = is_subhint(a,b)
    except Exception as e: errs.append((a,b,type(e).__name__, str(e)[:60])); res[(a,b)]=None
print('pairs',len(res),'errors',len(errs)); 
for e in errs[:8]: print('ERR',e)
nr=[a for a in H if res[(a,a)] is not True]; print('non-reflexive', nr[:10])
nt=[]
for a,b,cc in itertools.product(H,H,H):
    if res[(a,b)] and res[(b,cc)] and res[(a,cc)] is False: nt.append((a,b,cc))
print('non-transitive', len(nt)); 
for x in nt[:12]: print('  NT',x)
# soundness with sample objects
objs=[0,1,True,'a',2.5,None,U0(),U1(),[1],[True],['a'],[],(1,),(True,),(1,2),(True,1),(),{'a':1},{'a':True},{},{1},frozenset({1}),int,bool,U0,U1,[1,'a'],(1,'a')]
uns=[]
for (a,b),v in res.items():
    if v:
        for o in objs:
            try:
                if is_bearable(o,a) and not is_bearable(o,b): uns.append((a,b,o)); break
            except Exception as e: pass
print('unsound', len(uns))
for x in uns[:15]: print('  UNS',x)
