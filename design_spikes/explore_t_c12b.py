from beartype.door import is_bearable
from beartype.vale import IsAttr, IsEqual, Is, IsInstance
from typing import Annotated, Any
import beartype._check.code.codemain as cm
class P: 
    def __init__(s, x): s.x = x
for h, objs in [
  (list[Annotated[object, IsEqual[1], IsEqual[1]]], [[1],[2],[]]),
  (list[Annotated[object, IsEqual[1], IsInstance[int]]], [[1],[2],[True]]),
  (list[Annotated[object, IsInstance[int], IsEqual[1]]], [[1],[2],['a']]),
  (list[Annotated[object, IsAttr['x', IsEqual[1]], IsInstance[P]]], [[P(1)],[P(2)]]),
  (list[Annotated[object, ~IsEqual[1]]], [[1],[2]]),
  (list[Annotated[object, IsEqual[1] | IsEqual[2]]], [[1],[2],[3]]),
  (tuple[Annotated[object, IsEqual[1] , IsEqual[1]], int], [(1,1),(2,1)]),
  ]:
    try:
        print(h, [is_bearable(o, h) for o in objs])
    except Exception as e:
        print(h, 'EXC', type(e).__name__, str(e)[:200])
