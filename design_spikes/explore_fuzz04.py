import random, itertools, inspect, warnings
from typing import Annotated
from beartype import beartype
from beartype.vale import Is
from beartype.roar import BeartypeCallHintParamViolation
rng = random.Random(3)
log=[]
def rec(name, ok=True):
    def f(v): log.append((name, v)); return ok
    return Is[f]
names = list('abcdefghij')
def mk_sig():
    ks = []
    n_po = rng.randrange(0,3); n_fl = rng.randrange(0,3); vp = rng.random()<.5; n_ko = rng.randrange(0,3); vk = rng.random()<.5
    pool = names[:]; rng.shuffle(pool)
    parts=[]; params=[]
    seen_default=False
    for i in range(n_po):
        nm=pool.pop(); d = seen_default or rng.random()<.3; seen_default = d
        params.append(('po',nm,d))
    for i in range(n_fl):
        nm=pool.pop(); d = seen_default or rng.random()<.3; seen_default = d
        params.append(('fl',nm,d))
    if vp: params.append(('vp',pool.pop(),False))
    for i in range(n_ko):
        params.append(('ko',pool.pop(),rng.random()<.5))
    if vk: params.append(('vk',pool.pop(),False))
    ann = {nm: rng.random()<.7 for _,nm,_ in params}
    return params, ann
def src(params, ann):
    out=[]; did_slash=False; did_star=False
    po=[p for p in params if p[0]=='po']
    for k,nm,d in params:
        a = f": Annotated[object, rec('{nm}')]" if ann[nm] else ''
        dv = " = 'D'" if d else ''
        if k=='po': out.append(f"{nm}{a}{dv}")
        if k!='po' and po and not did_slash: out.append('/'); did_slash=True
        if k=='fl': out.append(f"{nm}{a}{dv}")
        if k=='vp': out.append(f"*{nm}{a}"); did_star=True
        if k=='ko':
            if not did_star: out.append('*'); did_star=True
            out.append(f"{nm}{a}{dv}")
        if k=='vk': out.append(f"**{nm}{a}")
    if po and not did_slash: out.append('/')
    return f"def f({', '.join(out)}):\n    calls.append(dict(locals()))\n    return RET\n"
bad=[]; n=0; bound=0
RET=object()
for it in range(4000):
    params, ann = mk_sig()
    s = src(params, ann); calls=[]
    g = {'Annotated':Annotated,'rec':rec,'calls':calls,'RET':RET}
    try: exec(s, g)
    except SyntaxError as e: print('syntax', s); continue
    f0 = g['f']; f1 = beartype(f0)
    sig = inspect.signature(f0)
    for c in range(6):
        args = [('A',i) for i in range(rng.randrange(0,5))]
        kws = {nm: ('K',nm) for nm in rng.sample(names, rng.randrange(0,4))}
        log.clear(); calls.clear(); n+=1
        try: f0(*args, **kws); ok=True; loc=dict(calls[-1]); calls.clear()
        except TypeError: ok=False
        try: r = f1(*args, **kws); out='ret'
        except TypeError: out='TypeError'
        except Exception as e: out=type(e).__name__
        if not ok:
            if out!='TypeError' or calls: bad.append(('unbindable', s, args, kws, out, len(calls)))
            continue
        bound+=1
        # expected checks
        exp=[]
        passed_pos=len(args)
        for nm,v in loc.items():
            if v=='D': continue
            k = sig.parameters[nm].kind
            if not ann[nm]: continue
            if k==inspect.Parameter.VAR_POSITIONAL: exp += [(nm,x) for x in v]
            elif k==inspect.Parameter.VAR_KEYWORD: exp += [(nm,x) for x in v.values()]
            else: exp.append((nm,v))
        if sorted(map(repr,exp))!=sorted(map(repr,log)) or out!='ret' or len(calls)!=1 or r is not RET:
            bad.append(('mismatch', s, args, kws, exp, list(log), out, len(calls)))
print(n,'calls',bound,'bindable',len(bad),'bad')
for b in bad[:6]: print(b)
