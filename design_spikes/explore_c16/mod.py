x: int = 'not an int'
print('mod imported, x =', x)
