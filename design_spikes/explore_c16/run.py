import sys
mode = sys.argv[1]
from beartype import BeartypeConf
from beartype.claw import beartype_package
if mode == 'on':
    beartype_package('pkg')
elif mode == 'nopep526':
    beartype_package('pkg', conf=BeartypeConf(claw_is_pep526=False))
elif mode == 'warn':
    beartype_package('pkg', conf=BeartypeConf(violation_type=UserWarning))
try:
    import pkg.mod
    print(mode, 'OK')
except Exception as e:
    print(mode, 'EXC', type(e).__name__)
