from beartype.door import is_bearable
from beartype.vale import IsAttr, IsEqual, Is, IsInstance
from typing import Annotated, Any
class P: 
    def __init__(s, x): s.x = x
for h in [list[Annotated[object, IsAttr['x', IsEqual[1]]]],
          list[Annotated[P, IsAttr['x', IsEqual[1]]]],
          dict[str, Annotated[object, IsAttr['x', IsAttr['real', IsEqual[1]]]]],
          Annotated[object, IsAttr['x', IsEqual[1]] & IsAttr['x', IsEqual[2]]],
          Annotated[object, IsAttr['x', IsEqual[1]] | ~IsAttr['x', IsEqual[2]]],
          ]:
    try:
        print(h, is_bearable([P(1)], h), is_bearable([P(2)], h), is_bearable({'a': P(1)}, h), is_bearable(P(1), h), is_bearable(P(2), h), is_bearable(3, h))
    except Exception as e:
        print(h, 'EXC', type(e).__name__, str(e)[:300])
