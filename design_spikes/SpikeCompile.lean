-- DESIGN-PHASE SPIKE (throw-away, not part of the framework): compiler correctness
-- eval (gen h) = chk h for the walrus-localising generator, leaf + sequence cases.
inductive Obj where
  | mk (cls : Nat) (items : List Obj) : Obj
def Obj.cls : Obj → Nat | .mk c _ => c
def Obj.items : Obj → List Obj | .mk _ xs => xs

inductive Hint where
  | cls (c : Nat) : Hint
  | seq (c : Nat) (item : Hint) : Hint

inductive Val where
  | obj (o : Obj) | bool (b : Bool) | int (n : Nat)

inductive Expr where
  | var (i : Nat) | rand
  | isinst (e : Expr) (c : Nat)
  | len (e : Expr)
  | not (e : Expr)
  | and (a b : Expr) | or (a b : Expr)
  | index (e i : Expr) | mod (a b : Expr)
  | idx (e : Expr) (n : Nat)
  | lenEq (e : Expr) (n : Nat)
  | walrus (i : Nat) (e : Expr)

abbrev Env := Nat → Option Obj
def Env.set (env : Env) (i : Nat) (o : Obj) : Env := fun j => if j = i then some o else env j

variable (isinst : Nat → Nat → Bool) (r : Nat)

def eval (env : Env) : Expr → Option (Val × Env)
  | .var i => (env i).map fun o => (.obj o, env)
  | .rand => some (.int r, env)
  | .isinst e c => match eval env e with
      | some (.obj o, env') => some (.bool (isinst o.cls c), env')
      | _ => none
  | .len e => match eval env e with
      | some (.obj o, env') => some (.int o.items.length, env')
      | _ => none
  | .not e => match eval env e with
      | some (.bool b, env') => some (.bool (!b), env')
      | some (.int n, env') => some (.bool (n == 0), env')
      | _ => none
  | .and a b => match eval env a with
      | some (.bool true, env') => eval env' b
      | some (.bool false, env') => some (.bool false, env')
      | _ => none
  | .or a b => match eval env a with
      | some (.bool true, env') => some (.bool true, env')
      | some (.bool false, env') => eval env' b
      | _ => none
  | .index e i => match eval env e with
      | some (.obj o, env') => match eval env' i with
          | some (.int n, env'') => (o.items[n]?).map fun y => (.obj y, env'')
          | _ => none
      | _ => none
  | .mod a b => match eval env a with
      | some (.int x, env') => match eval env' b with
          | some (.int y, env'') => if y = 0 then none else some (.int (x % y), env'')
          | _ => none
      | _ => none
  | .idx e n => match eval env e with
      | some (.obj o, env') => (o.items[n]?).map fun y => (.obj y, env')
      | _ => none
  | .lenEq e n => match eval env e with
      | some (.obj o, env') => some (.bool (o.items.length == n), env')
      | _ => none
  | .walrus i e => match eval env e with
      | some (.obj o, env') => some (.obj o, env'.set i o)
      | _ => none

/-- how the current pith is available -/
inductive Pith where
  | ident (k : Nat)                -- the identifier __beartype_pith_k (k = current index)
  | complex (e : Expr)             -- arbitrary expression: needs localisation into k+1

/-- (expression evaluating the pith once and leaving it in var k', k') -/
def localize : Pith → Nat → Expr × Nat
  | .ident k, _ => (.var k, k)
  | .complex e, k => (.walrus (k+1) e, k+1)

def Pith.expr : Pith → Expr
  | .ident k => .var k
  | .complex e => e

def gen : Hint → Pith → Nat → Expr
  | .cls c, p, _ => .isinst p.expr c
  | .seq c h, p, k =>
      let (a, k') := localize p k
      .and (.isinst a c)
        (.or (.not (.len (.var k')))
             (gen h (.complex (.index (.var k') (.mod .rand (.len (.var k'))))) k'))
def chk : Hint → Obj → Bool
  | .cls c, x => isinst x.cls c
  | .seq c h, x => isinst x.cls c &&
      (match x.items[r % x.items.length]? with
       | none => true
       | some y => chk h y)

/-- the pith evaluates to x in env leaving vars ≤ k alone -/
def PithOK (env : Env) (p : Pith) (k : Nat) (x : Obj) : Prop :=
  match p with
  | .ident j => j = k ∧ env k = some x
  | .complex e => ∀ env', (∀ j, j ≤ k → env' j = env j) →
      ∃ env'', eval isinst r env' e = some (.obj x, env'') ∧ (∀ j, j ≤ k → env'' j = env' j)


theorem localize_ok (p : Pith) (k : Nat) (env : Env) (x : Obj) (hp : PithOK isinst r env p k x) :
    ∃ env₁, eval isinst r env (localize p k).1 = some (.obj x, env₁) ∧ env₁ (localize p k).2 = some x ∧
      (∀ j, j ≤ k → env₁ j = env j) ∧ k ≤ (localize p k).2 := by
  cases p with
  | ident j =>
    obtain ⟨rfl, hx⟩ := hp
    exact ⟨env, by simp [localize, eval, hx], by simpa [localize] using hx, fun _ _ => rfl, by simp [localize]⟩
  | complex e =>
    obtain ⟨env'', he, hk⟩ := hp env (fun _ _ => rfl)
    refine ⟨env''.set (k+1) x, by simp [localize, eval, he], by simp [localize, Env.set], ?_, by simp [localize]⟩
    intro j hj
    have : j ≠ k + 1 := by omega
    simp [Env.set, this, hk j hj]

theorem compile_correct : ∀ (h : Hint) (p : Pith) (k : Nat) (env : Env) (x : Obj),
    PithOK isinst r env p k x →
    ∃ env', eval isinst r env (gen h p k) = some (.bool (chk isinst r h x), env') ∧
      (∀ j, j ≤ k → env' j = env j)
  | .cls c, p, k, env, x, hp => by
      cases p with
      | ident j =>
        obtain ⟨rfl, hx⟩ := hp
        exact ⟨env, by simp [gen, Pith.expr, eval, hx, chk], fun _ _ => rfl⟩
      | complex e =>
        obtain ⟨env'', he, hk⟩ := hp env (fun _ _ => rfl)
        exact ⟨env'', by simp [gen, Pith.expr, eval, he, chk], hk⟩
  | .seq c h, p, k, env, x, hp => by
      obtain ⟨env₁, ha, hk', hagree, hle⟩ := localize_ok isinst r p k env x hp
      generalize hloc : localize p k = lk at ha hk' hle
      obtain ⟨a, k'⟩ := lk
      simp only at ha hk' hle
      simp only [gen, hloc]
      by_cases hc : isinst x.cls c = true
      · -- class matches
        by_cases hlen : x.items.length = 0
        · refine ⟨env₁, ?_, hagree⟩
          have hnil : x.items = [] := List.length_eq_zero_iff.mp hlen
          simp [eval, ha, hc, hk', hlen, chk, hnil]
        · have hlt : r % x.items.length < x.items.length := Nat.mod_lt _ (Nat.pos_of_ne_zero hlen)
          obtain ⟨y, hy⟩ : ∃ y, x.items[r % x.items.length]? = some y :=
            ⟨x.items[r % x.items.length], by simp [hlt]⟩
          have hpy : PithOK isinst r env₁ (.complex (.index (.var k') (.mod .rand (.len (.var k'))))) k' y := by
            intro env' hag
            refine ⟨env', ?_, fun _ _ => rfl⟩
            have hx' : env' k' = some x := by rw [hag k' (Nat.le_refl _)]; exact hk'
            simp [eval, hx', hlen, hy]
          obtain ⟨env₂, hev, hag₂⟩ := compile_correct h _ k' env₁ y hpy
          refine ⟨env₂, ?_, fun j hj => by rw [hag₂ j (Nat.le_trans hj hle), hagree j hj]⟩
          have hb : (x.items.length == 0) = false := by simpa using hlen
          simp [eval, ha, hc, hk', hb, hev, chk, hy]
      · refine ⟨env₁, ?_, hagree⟩
        have hc' : isinst x.cls c = false := by simpa using hc
        simp [eval, ha, hc', chk]

#print axioms compile_correct
