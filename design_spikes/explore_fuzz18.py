import random, typing as t, collections.abc as c, collections, warnings
import beartype._check.code.codemain as cm
class FB:
    val=0
    def __call__(s,n): return s.val
fb=FB(); cm.getrandbits=fb
from beartype import BeartypeConf, FrozenDict
from beartype.door import is_bearable, die_if_unbearable
from beartype.roar import BeartypeDoorHintViolation
warnings.simplefilter('ignore')
rng=random.Random(5)
class A: pass
class B: pass
def gh(d, leaf):
    if d==0 or rng.random()<0.3: return rng.choice(leaf)
    k=rng.randrange(9)
    if k==0: return ('list', gh(d-1,leaf))
    if k==1: return ('tuplev', gh(d-1,leaf))
    if k==2: return ('tuplef', [gh(d-1,leaf) for _ in range(rng.randrange(1,3))])
    if k==3: return ('dict', gh(d-1,leaf), gh(d-1,leaf))
    if k==4: return ('union', [gh(d-1,leaf) for _ in range(rng.randrange(2,4))])
    if k==5: return ('set', gh(d-1,leaf))
    if k==6: return ('iter', gh(d-1,leaf))
    if k==7: return ('seq', gh(d-1,leaf))
    if k==8: return ('opt', gh(d-1,leaf))
def build(h, m):
    if not isinstance(h, tuple): return m.get(h, h)
    k=h[0]
    if k=='list': return list[build(h[1],m)]
    if k=='tuplev': return tuple[build(h[1],m), ...]
    if k=='tuplef': return tuple[tuple(build(x,m) for x in h[1])]
    if k=='dict': return dict[build(h[1],m), build(h[2],m)]
    if k=='union': return t.Union[tuple(build(x,m) for x in h[1])]
    if k=='set': return set[build(h[1],m)]
    if k=='iter': return c.Iterable[build(h[1],m)]
    if k=='seq': return c.Sequence[build(h[1],m)]
    if k=='opt': return t.Optional[build(h[1],m)]
def go(d):
    if d==0 or rng.random()<0.35: return rng.choice([0,1,True,'a',2.5,1j,None,A(),B()])
    k=rng.randrange(4); n=rng.randrange(0,4)
    if k==0: return [go(d-1) for _ in range(n)]
    if k==1: return tuple(go(d-1) for _ in range(n))
    if k==2:
        try: return {go(0): go(d-1) for _ in range(n)}
        except TypeError: return {}
    if k==3:
        try: return {go(0) for _ in range(n)}
        except TypeError: return set()
tower=BeartypeConf(is_pep484_tower=True)
ov=BeartypeConf(hint_overrides=FrozenDict({A: t.Union[A,B], str: t.Union[str, bytes]}))
dflt=BeartypeConf()
bad=[]; n=0; diff=0
for i in range(20000):
    h=gh(3,[int,float,complex,str,A,B,type(None)])
    h0=build(h,{})
    h_t=build(h,{float: t.Union[float,int], complex: t.Union[complex,float,int]})
    h_o=build(h,{A: t.Union[A,B], str: t.Union[str,bytes]})
    for j in range(3):
        x=go(3); fb.val=rng.choice([0,1,2,5])
        try:
            a1=is_bearable(x,h0,conf=tower); a2=is_bearable(x,h_t,conf=dflt)
            b1=is_bearable(x,h0,conf=ov); b2=is_bearable(x,h_o,conf=dflt)
            base=is_bearable(x,h0,conf=dflt)
        except Exception as e: bad.append(('exc',h0,x,type(e).__name__,str(e)[:100])); break
        n+=1; diff += (a1!=base)+(b1!=base)
        if a1!=a2: bad.append(('tower',h0,x,a1,a2,fb.val))
        if b1!=b2: bad.append(('override',h0,x,b1,b2,fb.val))
print(n,'cases',diff,'option-sensitive',len(bad),'bad')
for b in bad[:8]: print(b)
