calls = []
class O: pass
o = O()
def get():
    calls.append('get')
    return o
get().attr: int = 5
print('calls', calls)
d = {}
def key():
    calls.append('key'); return 'k'
d[key()]: int = 'bad'
print('calls', calls, d)
def h():
    calls.append('ann'); return int
y: h() = 3
print('calls', calls)
