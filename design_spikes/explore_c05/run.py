import sys
from beartype.claw import beartype_package
if sys.argv[1]=='on': beartype_package('pk')
import pk.m
