import asyncio, inspect
from beartype import beartype
from collections.abc import Generator, AsyncGenerator
log=[]
def g() -> Generator[int, None, str]:
    try:
        yield 1
    except GeneratorExit:
        log.append('swallow'); return 'done'
    yield 2
async def ag() -> AsyncGenerator[int, None]:
    try:
        yield 1
    except GeneratorExit:
        log.append('aswallow'); return
    yield 2
def drive_sync(fn):
    o = fn(); r=[]
    r.append(next(o))
    try: r.append(('ret', o.throw(GeneratorExit)))
    except BaseException as e: r.append((type(e).__name__, getattr(e,'value',None)))
    try: r.append(next(o))
    except BaseException as e: r.append(type(e).__name__)
    return r
async def drive_async(fn):
    o = fn(); r=[]
    r.append(await anext(o))
    try: r.append(('ret', await o.athrow(GeneratorExit)))
    except BaseException as e: r.append(type(e).__name__)
    try: r.append(await anext(o))
    except BaseException as e: r.append(type(e).__name__)
    return r
print('sync   plain', drive_sync(g)); print('sync   bear ', drive_sync(beartype(g)))
print('async  plain', asyncio.run(drive_async(ag))); print('async  bear ', asyncio.run(drive_async(beartype(ag))))
print(inspect.isgeneratorfunction(beartype(g)), inspect.isasyncgenfunction(beartype(ag)))
# athrow on fresh / exhausted
async def d2(fn):
    o=fn(); r=[]
    try: r.append(await o.athrow(ValueError('v')))
    except BaseException as e: r.append(type(e).__name__)
    try: r.append(await anext(o))
    except BaseException as e: r.append(type(e).__name__)
    try: r.append(await o.athrow(ValueError('v')))
    except BaseException as e: r.append(type(e).__name__)
    try: r.append(await o.asend(5))
    except BaseException as e: r.append(type(e).__name__)
    return r
print(asyncio.run(d2(ag)), asyncio.run(d2(beartype(ag))))
async def d3(fn):
    o=fn(); r=[]
    try: r.append(await o.asend(5))
    except BaseException as e: r.append((type(e).__name__, str(e)))
    try: r.append(await anext(o))
    except BaseException as e: r.append(type(e).__name__)
    return r
print(asyncio.run(d3(ag)), asyncio.run(d3(beartype(ag))))
