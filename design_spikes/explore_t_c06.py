import sys
from beartype import BeartypeConf
from beartype.claw import beartyping, beartype_package, beartype_packages, beartype_all
from beartype.claw._package.clawpkgtrie import get_package_conf_or_none as g
from beartype.claw._clawstate import claw_state
from beartype.roar import BeartypeClawHookException
def hooked(): return claw_state.beartype_path_hook in sys.path_hooks if claw_state.beartype_path_hook else False
print('init', g('foo'), hooked())
with beartyping():
    print('inside', g('foo') is not None, hooked())
print('after', g('foo'), hooked())
X = BeartypeConf(is_debug=True); Y = BeartypeConf(is_color=False)
beartype_package('b', conf=Y)
try:
    beartype_packages(('a','b'), conf=X)
except BeartypeClawHookException as e: print('conflict raised')
print('a after failed multi:', g('a'))
try:
    beartype_package('b', conf=BeartypeConf(is_debug=True, claw_skip_package_names=('zz',)))
except BeartypeClawHookException as e: print('conflict raised')
beartype_package('zz', conf=Y)
print('zz after failed skip:', g('zz'), g('zz.q'))
